// Lift of the C10 finding to the real parser (tree-sitter + TSX, /repo's own dev-dependency).
// Append this module to /repo/crates/core/src/lib.rs in a scratch worktree and run
//   cargo test --offline -p ast-grep-core c10_probe -- --nocapture
// Before the fix (Root::do_edit applied Tree::edit twice) it reports thousands of
// mismatches between the incrementally re-parsed tree and a fresh parse on error-free
// results, e.g. source "const s = `abc`; // comment\nlet t = 'x';\n/* c */ u();\n",
// Edit{position:18, deleted_length:3, inserted_text:"/*"}; after the fix: 0.
#[cfg(test)]
mod c10_probe {
  use super::*;
  use language::Tsx;
  use source::Edit;

  fn dump(n: Node<StrDoc<Tsx>>, out: &mut String) {
    out.push_str(&format!("({} {:?} {:?}-{:?}", n.kind(), n.range(), n.start_pos().line(), n.end_pos().line()));
    for c in n.children() {
      dump(c, out);
    }
    out.push(')');
  }

  #[test]
  fn double_edit_probe() {
    let bases = [
      "let a = 1;\nlet b = 2;\nlet c = 3;\nfoo(a, b, c);\n",
      "function f(x) { return x + 1; }\nfunction g(y) { return y * 2; }\nf(g(1));\n",
      "a;b;c;d;e;f;g;h;\n",
      "if (a) { b(); } else { c(); }\nwhile (x) { y(); }\n",
      "const s = `abc`; // comment\nlet t = 'x';\n/* c */ u();\n",
    ];
    let inserts = ["", "x", ";", " ", "\n", "(", ")", "{", "}", "1", "a;", "/*", "*/", "'", "`", "//", "let ", "foo()"];
    let mut seed: u64 = 12345;
    let mut next = || { seed ^= seed << 13; seed ^= seed >> 7; seed ^= seed << 17; seed };
    let mut bad = 0;
    for iter in 0..30000 {
      let base = bases[(next() % bases.len() as u64) as usize];
      let mut ag = Tsx.ast_grep(base);
      let mut ok = true;
      for _ in 0..3 {
        let len = ag.source().len();
        let pos = (next() % (len as u64 + 1)) as usize;
        let del = (next() % 4).min((len - pos) as u64) as usize;
        let ins = inserts[(next() % inserts.len() as u64) as usize];
        if !ag.source().is_char_boundary(pos) || !ag.source().is_char_boundary(pos + del) { continue; }
        let before = ag.source().to_string();
        ag.edit(Edit::<String> { position: pos, deleted_length: del, inserted_text: ins.as_bytes().to_vec() }).unwrap();
        let fresh = Tsx.ast_grep(ag.source());
        let (mut a, mut b) = (String::new(), String::new());
        dump(ag.root(), &mut a);
        dump(fresh.root(), &mut b);
        let has_err = fresh.root().dfs().any(|n| n.is_error() || n.get_ts_node().is_missing());
        if a != b && !has_err {
          bad += 1;
          if bad <= 5 {
            println!("MISMATCH iter={iter} before={before:?} pos={pos} del={del} ins={ins:?}\n after={:?}\n inc ={a}\n full={b}", ag.source());
          }
          ok = false;
          break;
        }
      }
      let _ = ok;
    }
    println!("mismatches: {bad}");
    assert_eq!(bad, 0);
  }
}
