// counterexample for harness `c11_transform_source_total` (property C11) found by Kani/CBMC
// replay: ./check C11 --replay replays/C11/c11_transform_source_total_b9ab3aa6cb.rs
// harness-module: small_kernels
/// Test generated for harness `small_kernels::proofs::c11_transform_source_total` 
///
/// Check for `assertion`: "This is a placeholder message; Kani doesn't support message formatted at runtime"

#[test]
fn kani_concrete_playback_c11_transform_source_total_12768557174466605893() {
    let concrete_vals: Vec<Vec<u8>> = vec![
    ];
    kani::concrete_playback_run(concrete_vals, c11_transform_source_total);
}
