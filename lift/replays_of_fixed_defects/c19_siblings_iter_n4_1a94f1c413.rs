// counterexample for harness `c19_siblings_iter_n4` (property C19) found by Kani/CBMC
// replay: ./check C19 --replay replays/C19/c19_siblings_iter_n4_1a94f1c413.rs
// harness-module: c19_nav
/// Test generated for harness `c19_nav::proofs::c19_siblings_iter_n4` 
///
/// Check for `assertion`: "assertion failed: nx.is_some()"

#[test]
fn kani_concrete_playback_c19_siblings_iter_n4_16780423120922045588() {
    let concrete_vals: Vec<Vec<u8>> = vec![
        // 4ul
        vec![4, 0, 0, 0, 0, 0, 0, 0],
        // 0
        vec![0],
        // 1
        vec![1],
        // 0
        vec![0],
        // 1
        vec![1],
        // 0
        vec![0],
        // 65535
        vec![255, 255],
        // 0
        vec![0],
        // 1
        vec![1],
        // 1
        vec![1],
        // 65535
        vec![255, 255],
        // 0
        vec![0],
        // 1
        vec![1],
        // 0
        vec![0],
        // 65535
        vec![255, 255],
        // 0
        vec![0],
        // 2
        vec![2],
        // 1
        vec![1],
        // 65535
        vec![255, 255],
        // 0
        vec![0],
        // 0ul
        vec![0, 0, 0, 0, 0, 0, 0, 0],
    ];
    kani::concrete_playback_run(concrete_vals, c19_siblings_iter_n4);
}
