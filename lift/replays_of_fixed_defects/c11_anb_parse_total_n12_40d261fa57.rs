// counterexample for harness `c11_anb_parse_total_n12` (property C11) found by Kani/CBMC
// replay: ./check C11 --replay replays/C11/c11_anb_parse_total_n12_40d261fa57.rs
// harness-module: anb
/// Test generated for harness `anb::proofs::c11_anb_parse_total_n12` 
///
/// Check for `assertion`: "attempt to multiply with overflow"

#[test]
fn kani_concrete_playback_c11_anb_parse_total_n12_14566120634766660183() {
    let concrete_vals: Vec<Vec<u8>> = vec![
        // 12ul
        vec![12, 0, 0, 0, 0, 0, 0, 0],
        // 3ul
        vec![3, 0, 0, 0, 0, 0, 0, 0],
        // 3ul
        vec![3, 0, 0, 0, 0, 0, 0, 0],
        // 4ul
        vec![4, 0, 0, 0, 0, 0, 0, 0],
        // 4ul
        vec![4, 0, 0, 0, 0, 0, 0, 0],
        // 4ul
        vec![4, 0, 0, 0, 0, 0, 0, 0],
        // 3ul
        vec![3, 0, 0, 0, 0, 0, 0, 0],
        // 5ul
        vec![5, 0, 0, 0, 0, 0, 0, 0],
        // 4ul
        vec![4, 0, 0, 0, 0, 0, 0, 0],
        // 5ul
        vec![5, 0, 0, 0, 0, 0, 0, 0],
        // 3ul
        vec![3, 0, 0, 0, 0, 0, 0, 0],
        // 3ul
        vec![3, 0, 0, 0, 0, 0, 0, 0],
        // 4ul
        vec![4, 0, 0, 0, 0, 0, 0, 0],
    ];
    kani::concrete_playback_run(concrete_vals, c11_anb_parse_total_n12);
}
