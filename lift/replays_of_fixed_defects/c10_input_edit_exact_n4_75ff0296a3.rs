// counterexample for harness `c10_input_edit_exact_n4` (property C10) found by Kani/CBMC
// replay: ./check C10 --replay replays/C10/c10_input_edit_exact_n4_75ff0296a3.rs
// harness-module: c10_edit
/// Test generated for harness `c10_edit::proofs::c10_input_edit_exact_n4` 
///
/// Check for `assertion`: "rust_dealloc must be called on an object whose allocated size matches its layout"

#[test]
fn kani_concrete_playback_c10_input_edit_exact_n4_7768629459341525051() {
    let concrete_vals: Vec<Vec<u8>> = vec![
    ];
    kani::concrete_playback_run(concrete_vals, c10_input_edit_exact_n4);
}
