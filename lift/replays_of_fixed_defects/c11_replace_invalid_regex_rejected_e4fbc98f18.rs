// counterexample for harness `c11_replace_invalid_regex_rejected` (property C11) found by Kani/CBMC
// replay: ./check C11 --replay replays/C11/c11_replace_invalid_regex_rejected_e4fbc98f18.rs
// harness-module: c12_fix_forms
/// Test generated for harness `c12_fix_forms::proofs::c11_replace_invalid_regex_rejected` 
///
/// Check for `assertion`: ""a `replace` transformation with an invalid regex was accepted at load time""
///
/// # Warning
///
/// Concrete playback tests combined with stubs or contracts is highly
/// experimental, and subject to change.
///
/// The original harness has stubs which are not applied to this test.
/// This may cause a mismatch of non-deterministic values if the stub
/// creates any non-deterministic value.
/// The execution path may also differ, which can be used to refine the stub
/// logic.

#[test]
fn kani_concrete_playback_c11_replace_invalid_regex_rejected_318133423637301337() {
    let concrete_vals: Vec<Vec<u8>> = vec![
    ];
    kani::concrete_playback_run(concrete_vals, c11_replace_invalid_regex_rejected);
}
