// counterexample for harness `c01_prefilter_terminal` (property C01) found by Kani/CBMC
// replay: ./check C01 --replay replays/C01/c01_prefilter_terminal_424069125c.rs
// harness-module: c01_prefilter
/// Test generated for harness `c01_prefilter::proofs::c01_prefilter_terminal` 
///
/// Check for `assertion`: ""a matched node contains the pattern's fixed string""

#[test]
fn kani_concrete_playback_c01_prefilter_terminal_7865974289320721365() {
    let concrete_vals: Vec<Vec<u8>> = vec![
        // 65535
        vec![255, 255],
        // 0
        vec![0],
        // 7
        vec![7, 0],
        // 4
        vec![4],
    ];
    kani::concrete_playback_run(concrete_vals, c01_prefilter_terminal);
}
