//! `$_`, `$_X`, `$$_` must be non-capturing holes in every language (C20); in 0.37.0 they
//! were not in the languages whose expando character was `_` (C, C++, CSS).
use ast_grep_core::matcher::MatcherExt;
use ast_grep_core::{Language, Pattern};
use ast_grep_language::SupportLang;

fn first_match(lang: SupportLang, pat: &str, src: &str) -> Option<(String, Vec<String>)> {
  let g = lang.ast_grep(src);
  let p = Pattern::new(pat, lang);
  let m = g.root().find(&p)?;
  let vars: Vec<String> = m.get_env().get_matched_variables().map(|v| format!("{v:?}")).collect();
  Some((m.text().to_string(), vars))
}

#[test]
fn non_capturing_hole_is_uniform() {
  use SupportLang::*;
  let cases = [
    (C, "$_->b", "$_X->b", "$A->b", "a->b;"),
    (Cpp, "$_->b", "$_X->b", "$A->b", "a->b;"),
    (Css, ".a { color: $_; }", ".a { color: $_X; }", ".a { color: $A; }", ".a { color: red; }"),
    (JavaScript, "$_.b", "$_X.b", "$A.b", "a.b;"),
    (Rust, "$_.b", "$_X.b", "$A.b", "fn f() { a.b; }"),
  ];
  for (lang, anon, anon_named, capture, src) in cases {
    let r = first_match(lang, capture, src);
    assert!(matches!(&r, Some((_, v)) if v.len() == 1), "{lang:?} {capture}: {r:?}");
    for pat in [anon, anon_named] {
      let r = first_match(lang, pat, src);
      assert!(r.is_some(), "{lang:?}: `{pat}` must be a hole");
      assert!(r.unwrap().1.is_empty(), "{lang:?}: `{pat}` must not capture");
    }
  }
}
