//! Pure-Rust stand-in for `tree-sitter-facade-sg` 0.25.3 (stub ST1 of /verif/DESIGN.md).
//!
//! Same crate name, version and API surface as far as `ast-grep-core` and
//! `ast-grep-config` use it, but the tree is a fixed-size arena that a harness fills with
//! concrete or symbolic (`kani::any()`) data.  `Parser::parse` hands back the next tree
//! from a queue the harness filled, so `Root::try_new`, `Pattern::try_new`,
//! `AstGrep::new/edit` of the real crates run unchanged.
//!
//! What is modelled is tree-sitter's *structural* contract (documented behaviour of the
//! C library), never a grammar:
//!  * children are ordered; `parent(child(n,i)) == n`; ids are unique per tree;
//!  * a `TreeCursor` made by `Node::walk` is scoped to that node: `goto_parent` and
//!    `goto_{next,previous}_sibling` fail at the scope root;
//!  * `goto_first_child_for_byte(b)` moves to the first child whose end byte is `> b`
//!    (tree_cursor.c: `entry_end.bytes > goal_byte`), else stays and returns `None`;
//!  * `child_with_descendant(d)` is the child that contains `d` (or is `d`);
//!  * `child_by_field_id(f)` is the first child carrying field `f`;
//!  * `kind()` is a function of `kind_id()`.
#![allow(clippy::all)]

use std::borrow::Cow;

#[cfg(feature = "n4")]
pub const MAXN: usize = 4;
#[cfg(all(feature = "n6", not(feature = "n4")))]
pub const MAXN: usize = 6;
#[cfg(all(feature = "n12", not(any(feature = "n4", feature = "n6"))))]
pub const MAXN: usize = 12;
#[cfg(not(any(feature = "n4", feature = "n6", feature = "n12")))]
pub const MAXN: usize = 8;

pub const NIL: u8 = 255;
pub const ERROR_KIND: u16 = 65535;

/// All kind names have the same length so that `kind()` has a *literal* length even when
/// the kind id is symbolic (keeps `str::contains("comment")` out of the SIMD/two-way
/// searcher during symbolic execution).
pub const KIND_LEN: usize = 7;
pub const NKINDS: usize = 10;
/// index 0 = ERROR (id 65535); index i = kind id i
pub static KIND_NAMES: [u8; KIND_LEN * NKINDS] =
  *b"ERROR__ident__number_call___args___commentpunct_apunct_bstmt___string_";
pub const K_IDENT: u16 = 1;
pub const K_NUMBER: u16 = 2;
pub const K_CALL: u16 = 3;
pub const K_ARGS: u16 = 4;
pub const K_COMMENT: u16 = 5;
pub const K_PUNCT_A: u16 = 6;
pub const K_PUNCT_B: u16 = 7;
pub const K_STMT: u16 = 8;
pub const K_STRING: u16 = 9;

/// namedness of a kind id in the mock grammar (6 and 7 are anonymous tokens)
pub fn kind_is_named(k: u16) -> bool {
  k != K_PUNCT_A && k != K_PUNCT_B && k != 0
}

pub const FIELD_NAMES: [&str; 3] = ["", "fielda", "fieldb"];

#[derive(Clone, Copy, PartialEq, Eq, Debug)]
pub struct NodeData {
  pub parent: u8,
  pub first_child: u8,
  pub last_child: u8,
  pub next: u8,
  pub prev: u8,
  pub child_count: u8,
  pub named_child_count: u8,
  pub kind: u16,
  pub named: bool,
  pub missing: bool,
  /// 0 = no field
  pub field: u16,
  pub start: u32,
  pub end: u32,
  pub srow: u32,
  pub scol: u32,
  pub erow: u32,
  pub ecol: u32,
}

impl NodeData {
  pub const EMPTY: NodeData = NodeData {
    parent: NIL,
    first_child: NIL,
    last_child: NIL,
    next: NIL,
    prev: NIL,
    child_count: 0,
    named_child_count: 0,
    kind: K_IDENT,
    named: true,
    missing: false,
    field: 0,
    start: 0,
    end: 0,
    srow: 0,
    scol: 0,
    erow: 0,
    ecol: 0,
  };
}

#[derive(Clone, PartialEq, Eq, Debug)]
pub struct TreeData {
  pub n: u8,
  pub nodes: [NodeData; MAXN],
  /// number of `Tree::edit` calls this tree has received
  pub edits: u8,
  pub last_edit: Option<InputEdit>,
}

impl TreeData {
  pub const fn empty() -> Self {
    TreeData {
      n: 0,
      nodes: [NodeData::EMPTY; MAXN],
      edits: 0,
      last_edit: None,
    }
  }

  /// Build the link structure from a pre-order parent vector.
  /// `parent[0]` is ignored (root). Requires `parent[i] < i` and the pre-order
  /// ancestor-chain condition (`parent[i]` is `i-1` or an ancestor of `i-1`), which
  /// `is_preorder` checks. All loops have concrete bounds; symbolic values only appear in
  /// guards.
  pub fn from_parents(n: usize, parent: &[u8; MAXN]) -> Self {
    let mut t = TreeData::empty();
    t.n = n as u8;
    let mut i = 1;
    while i < MAXN {
      if i < n {
        let p = parent[i];
        t.nodes[i].parent = p;
        // previous sibling = the largest j < i with the same parent
        let mut prev = NIL;
        let mut j = 1;
        while j < i {
          if parent[j] == p {
            prev = j as u8;
          }
          j += 1;
        }
        t.nodes[i].prev = prev;
        let mut j = 0;
        while j < i {
          if j as u8 == p {
            if t.nodes[j].first_child == NIL {
              t.nodes[j].first_child = i as u8;
            }
            t.nodes[j].last_child = i as u8;
            t.nodes[j].child_count += 1;
          }
          if j as u8 == prev {
            t.nodes[j].next = i as u8;
          }
          j += 1;
        }
      }
      i += 1;
    }
    t
  }

  /// pre-order well-formedness of a parent vector
  pub fn is_preorder(n: usize, parent: &[u8; MAXN]) -> bool {
    let mut i = 1;
    while i < MAXN {
      if i < n {
        let p = parent[i] as usize;
        if p >= i {
          return false;
        }
        // p must be i-1 or an ancestor of i-1
        let mut a = i - 1;
        let mut ok = false;
        let mut steps = 0;
        while steps < MAXN {
          if a == p {
            ok = true;
            break;
          }
          if a == 0 {
            break;
          }
          a = parent[a] as usize;
          steps += 1;
        }
        if !ok {
          return false;
        }
      }
      i += 1;
    }
    true
  }

  /// Recompute `named_child_count` from the `named` bits (tree-sitter contract).
  pub fn fix_named_counts(&mut self) {
    let n = self.n as usize;
    let mut i = 0;
    while i < MAXN {
      if i < n {
        self.nodes[i].named_child_count = 0;
      }
      i += 1;
    }
    let mut i = 1;
    while i < MAXN {
      if i < n && self.nodes[i].named {
        let p = self.nodes[i].parent;
        let mut j = 0;
        while j < i {
          if j as u8 == p {
            self.nodes[j].named_child_count += 1;
          }
          j += 1;
        }
      }
      i += 1;
    }
  }

  /// Lay out byte ranges: leaves get `width[i]` bytes preceded by `gap[i]` bytes of
  /// inter-token space, in pre-order (= document order); an inner node spans from its
  /// first leaf's start to its last leaf's end. Returns the total length.
  pub fn layout(&mut self, width: &[u8; MAXN], gap: &[u8; MAXN]) -> u32 {
    let n = self.n as usize;
    let mut off: u32 = 0;
    let mut i = 0;
    while i < MAXN {
      if i < n {
        if self.nodes[i].first_child == NIL {
          off += gap[i] as u32;
          self.nodes[i].start = off;
          off += width[i] as u32;
          self.nodes[i].end = off;
        } else {
          // provisional; fixed below
          self.nodes[i].start = u32::MAX;
          self.nodes[i].end = 0;
        }
      }
      i += 1;
    }
    // propagate to parents, children before parents (reverse pre-order)
    let mut i = MAXN;
    while i > 1 {
      i -= 1;
      if i < n {
        let p = self.nodes[i].parent;
        let (s, e) = (self.nodes[i].start, self.nodes[i].end);
        let mut j = 0;
        while j < i {
          if j as u8 == p {
            if s < self.nodes[j].start {
              self.nodes[j].start = s;
            }
            if e > self.nodes[j].end {
              self.nodes[j].end = e;
            }
          }
          j += 1;
        }
      }
    }
    off
  }

  /// Fill row/column of every node from the source text (byte columns, like tree-sitter).
  pub fn fill_points(&mut self, src: &[u8]) {
    let n = self.n as usize;
    let mut i = 0;
    while i < MAXN {
      if i < n {
        let (r, c) = point_of(src, self.nodes[i].start as usize);
        self.nodes[i].srow = r;
        self.nodes[i].scol = c;
        let (r, c) = point_of(src, self.nodes[i].end as usize);
        self.nodes[i].erow = r;
        self.nodes[i].ecol = c;
      }
      i += 1;
    }
  }
}

pub fn point_of(src: &[u8], off: usize) -> (u32, u32) {
  let (mut r, mut c) = (0u32, 0u32);
  let mut k = 0;
  while k < off && k < src.len() {
    if src[k] == b'\n' {
      r += 1;
      c = 0;
    } else {
      c += 1;
    }
    k += 1;
  }
  (r, c)
}

// ---------------------------------------------------------------------------------------
// parse queue

const QCAP: usize = 4;
static mut QUEUE: [TreeData; QCAP] = [
  TreeData::empty(),
  TreeData::empty(),
  TreeData::empty(),
  TreeData::empty(),
];
static mut QHEAD: usize = 0;
static mut QLEN: usize = 0;
/// what the last `Parser::parse` call saw
pub static mut LAST_PARSE_HAD_OLD: bool = false;
pub static mut LAST_PARSE_OLD_EDITS: u8 = 0;
pub static mut LAST_PARSE_OLD_EDIT: Option<InputEdit> = None;
pub static mut PARSE_CALLS: u32 = 0;

/// queue a tree to be returned by the next `Parser::parse`
pub fn push_tree(t: TreeData) {
  unsafe {
    assert!(QLEN < QCAP);
    let slot = (QHEAD + QLEN) % QCAP;
    QUEUE[slot] = t;
    QLEN += 1;
  }
}
pub fn reset_queue() {
  unsafe {
    QHEAD = 0;
    QLEN = 0;
    PARSE_CALLS = 0;
    LAST_PARSE_HAD_OLD = false;
    LAST_PARSE_OLD_EDITS = 0;
    LAST_PARSE_OLD_EDIT = None;
  }
}
fn pop_tree() -> Option<TreeData> {
  unsafe {
    if QLEN == 0 {
      return None;
    }
    let t = QUEUE[QHEAD].clone();
    QHEAD = (QHEAD + 1) % QCAP;
    QLEN -= 1;
    Some(t)
  }
}

// ---------------------------------------------------------------------------------------
// Point / Range / InputEdit

#[derive(Clone, Copy, Eq, Hash, Ord, PartialEq, PartialOrd, Debug, Default)]
pub struct Point {
  row: u32,
  column: u32,
}
impl Point {
  #[inline]
  pub fn new(row: u32, column: u32) -> Self {
    Point { row, column }
  }
  #[inline]
  pub fn column(&self) -> u32 {
    self.column
  }
  #[inline]
  pub fn row(&self) -> u32 {
    self.row
  }
}
impl std::fmt::Display for Point {
  fn fmt(&self, _f: &mut std::fmt::Formatter) -> std::fmt::Result {
    Ok(())
  }
}

#[derive(Clone, Eq, Hash, PartialEq, Debug, Default)]
pub struct Range {
  start_byte: u32,
  end_byte: u32,
  start_point: Point,
  end_point: Point,
}
impl Range {
  pub fn new(start_byte: u32, end_byte: u32, start_point: &Point, end_point: &Point) -> Self {
    Range {
      start_byte,
      end_byte,
      start_point: *start_point,
      end_point: *end_point,
    }
  }
  pub fn end_byte(&self) -> u32 {
    self.end_byte
  }
  pub fn end_point(&self) -> Point {
    self.end_point
  }
  pub fn start_byte(&self) -> u32 {
    self.start_byte
  }
  pub fn start_point(&self) -> Point {
    self.start_point
  }
}

#[derive(Clone, Copy, Eq, PartialEq, Debug, Default)]
pub struct InputEdit {
  pub start_byte: u32,
  pub old_end_byte: u32,
  pub new_end_byte: u32,
  pub start_position: Point,
  pub old_end_position: Point,
  pub new_end_position: Point,
}
impl InputEdit {
  #[inline]
  pub fn new(
    start_byte: u32,
    old_end_byte: u32,
    new_end_byte: u32,
    start_position: &Point,
    old_end_position: &Point,
    new_end_position: &Point,
  ) -> Self {
    InputEdit {
      start_byte,
      old_end_byte,
      new_end_byte,
      start_position: *start_position,
      old_end_position: *old_end_position,
      new_end_position: *new_end_position,
    }
  }
  pub fn new_end_byte(&self) -> u32 {
    self.new_end_byte
  }
  pub fn new_end_position(&self) -> Point {
    self.new_end_position
  }
  pub fn old_end_byte(&self) -> u32 {
    self.old_end_byte
  }
  pub fn old_end_position(&self) -> Point {
    self.old_end_position
  }
  pub fn start_byte(&self) -> u32 {
    self.start_byte
  }
  pub fn start_position(&self) -> Point {
    self.start_position
  }
}

// ---------------------------------------------------------------------------------------
// errors

macro_rules! err_type {
  ($name:ident) => {
    #[derive(Eq, PartialEq, Debug)]
    pub struct $name;
    impl std::fmt::Display for $name {
      fn fmt(&self, _f: &mut std::fmt::Formatter) -> std::fmt::Result {
        Ok(())
      }
    }
    impl std::error::Error for $name {}
  };
}
err_type!(IncludedRangesError);
err_type!(QueryError);
err_type!(LanguageError);
err_type!(ParserError);

// ---------------------------------------------------------------------------------------
// Language

#[derive(Clone, Eq, PartialEq, Debug, Default)]
pub struct Language;

fn kind_index(kind: u16) -> usize {
  if kind == ERROR_KIND {
    0
  } else if (kind as usize) < NKINDS {
    kind as usize
  } else {
    0
  }
}

pub fn kind_name(kind: u16) -> &'static str {
  let idx = kind_index(kind);
  // literal length: see KIND_LEN
  unsafe {
    std::str::from_utf8_unchecked(std::slice::from_raw_parts(
      KIND_NAMES.as_ptr().add(KIND_LEN * idx),
      KIND_LEN,
    ))
  }
}

impl Language {
  pub fn field_count(&self) -> u16 {
    2
  }
  pub fn field_id_for_name(&self, field_name: impl AsRef<[u8]>) -> Option<u16> {
    let name = field_name.as_ref();
    let mut i = 1;
    while i < FIELD_NAMES.len() {
      if FIELD_NAMES[i].as_bytes() == name {
        return Some(i as u16);
      }
      i += 1;
    }
    None
  }
  pub fn field_name_for_id(&self, field_id: u16) -> Option<Cow<str>> {
    if field_id >= 1 && (field_id as usize) < FIELD_NAMES.len() {
      Some(Cow::Borrowed(FIELD_NAMES[field_id as usize]))
    } else {
      None
    }
  }
  pub fn id_for_node_kind(&self, kind: &str, named: bool) -> u16 {
    let k = kind.as_bytes();
    if k.len() != KIND_LEN {
      return 0;
    }
    let mut i = 0;
    while i < NKINDS {
      let mut eq = true;
      let mut j = 0;
      while j < KIND_LEN {
        if KIND_NAMES[i * KIND_LEN + j] != k[j] {
          eq = false;
        }
        j += 1;
      }
      if eq {
        let id = if i == 0 { ERROR_KIND } else { i as u16 };
        if i == 0 || kind_is_named(id) == named {
          return id;
        }
        return 0;
      }
      i += 1;
    }
    0
  }
  pub fn node_kind_count(&self) -> u16 {
    NKINDS as u16
  }
  pub fn node_kind_for_id(&self, id: u16) -> Option<Cow<str>> {
    if id == ERROR_KIND || (id >= 1 && (id as usize) < NKINDS) {
      Some(Cow::Borrowed(kind_name(id)))
    } else {
      None
    }
  }
  pub fn node_kind_is_named(&self, id: u16) -> bool {
    kind_is_named(id)
  }
  pub fn node_kind_is_visible(&self, _id: u16) -> bool {
    true
  }
  pub fn abi_version(&self) -> u32 {
    15
  }
}

// ---------------------------------------------------------------------------------------
// Tree

#[derive(Clone, Debug)]
pub struct Tree {
  pub data: TreeData,
}

impl Tree {
  pub fn from_data(data: TreeData) -> Self {
    Tree { data }
  }
  pub fn edit(&mut self, edit: &InputEdit) {
    self.data.edits = self.data.edits.saturating_add(1);
    self.data.last_edit = Some(*edit);
  }
  pub fn changed_ranges(&self, _other: &Tree) -> impl ExactSizeIterator<Item = Range> {
    Vec::new().into_iter()
  }
  pub fn language(&self) -> Language {
    Language
  }
  pub fn root_node(&self) -> Node<'_> {
    Node {
      tree: &self.data,
      idx: 0,
    }
  }
  pub fn walk(&self) -> TreeCursor<'_> {
    self.root_node().walk()
  }
}

// ---------------------------------------------------------------------------------------
// Node

#[derive(Clone, Copy)]
pub struct Node<'tree> {
  pub tree: &'tree TreeData,
  pub idx: u8,
}

impl<'tree> PartialEq for Node<'tree> {
  fn eq(&self, other: &Self) -> bool {
    self.idx == other.idx && std::ptr::eq(self.tree, other.tree)
  }
}
impl<'tree> Eq for Node<'tree> {}

impl<'tree> std::fmt::Debug for Node<'tree> {
  fn fmt(&self, _f: &mut std::fmt::Formatter) -> std::fmt::Result {
    Ok(())
  }
}

impl<'tree> Node<'tree> {
  #[inline]
  fn d(&self) -> &'tree NodeData {
    &self.tree.nodes[self.idx as usize]
  }
  #[inline]
  fn at(&self, idx: u8) -> Option<Self> {
    if idx == NIL {
      None
    } else {
      Some(Node {
        tree: self.tree,
        idx,
      })
    }
  }
  pub fn byte_range(&self) -> std::ops::Range<u32> {
    self.d().start..self.d().end
  }
  pub fn child(&self, i: u32) -> Option<Self> {
    let mut c = self.d().first_child;
    let mut k = 0u32;
    let mut guard = 0;
    while c != NIL && guard < MAXN {
      if k == i {
        return self.at(c);
      }
      c = self.tree.nodes[c as usize].next;
      k += 1;
      guard += 1;
    }
    None
  }
  pub fn child_by_field_id(&self, field_id: u16) -> Option<Self> {
    if field_id == 0 {
      return None;
    }
    let mut c = self.d().first_child;
    let mut guard = 0;
    while c != NIL && guard < MAXN {
      if self.tree.nodes[c as usize].field == field_id {
        return self.at(c);
      }
      c = self.tree.nodes[c as usize].next;
      guard += 1;
    }
    None
  }
  pub fn child_by_field_name(&self, field_name: impl AsRef<[u8]>) -> Option<Self> {
    let id = Language.field_id_for_name(field_name)?;
    self.child_by_field_id(id)
  }
  /// the child of `self` that contains `descendant` (or is it); `None` if `descendant`
  /// is `self` or outside `self`'s subtree
  pub fn child_with_descendant(&self, descendant: Self) -> Option<Self> {
    let mut cur = descendant.idx;
    let mut guard = 0;
    while cur != NIL && guard < MAXN {
      let p = self.tree.nodes[cur as usize].parent;
      if p == self.idx {
        return self.at(cur);
      }
      cur = p;
      guard += 1;
    }
    None
  }
  pub fn child_count(&self) -> u32 {
    self.d().child_count as u32
  }
  pub fn children<'a>(
    &self,
    _cursor: &'a mut TreeCursor<'tree>,
  ) -> impl ExactSizeIterator<Item = Node<'tree>> + 'a {
    ChildIter {
      tree: self.tree,
      cur: self.d().first_child,
      remaining: self.d().child_count as usize,
    }
  }
  pub fn edit(&mut self, _edit: &InputEdit) {}
  pub fn end_byte(&self) -> u32 {
    self.d().end
  }
  pub fn end_position(&self) -> Point {
    Point::new(self.d().erow, self.d().ecol)
  }
  pub fn has_changes(&self) -> bool {
    false
  }
  pub fn has_error(&self) -> bool {
    self.is_error()
  }
  pub fn id(&self) -> usize {
    self.idx as usize + 1
  }
  pub fn is_error(&self) -> bool {
    self.d().kind == ERROR_KIND
  }
  pub fn is_extra(&self) -> bool {
    false
  }
  pub fn is_missing(&self) -> bool {
    self.d().missing
  }
  pub fn is_named(&self) -> bool {
    self.d().named
  }
  pub fn kind(&self) -> Cow<'static, str> {
    Cow::Borrowed(kind_name(self.d().kind))
  }
  pub fn kind_id(&self) -> u16 {
    self.d().kind
  }
  pub fn language(&self) -> Language {
    Language
  }
  pub fn named_child_count(&self) -> u32 {
    self.d().named_child_count as u32
  }
  pub fn next_sibling(&self) -> Option<Self> {
    self.at(self.d().next)
  }
  pub fn parent(&self) -> Option<Self> {
    self.at(self.d().parent)
  }
  pub fn prev_sibling(&self) -> Option<Self> {
    self.at(self.d().prev)
  }
  pub fn range(&self) -> Range {
    Range::new(
      self.d().start,
      self.d().end,
      &self.start_position(),
      &self.end_position(),
    )
  }
  pub fn start_byte(&self) -> u32 {
    self.d().start
  }
  pub fn start_position(&self) -> Point {
    Point::new(self.d().srow, self.d().scol)
  }
  pub fn to_sexp(&self) -> Cow<str> {
    Cow::Borrowed("")
  }
  /// ST2: the harness guarantees `source` is valid UTF-8 and node ranges sit on char
  /// boundaries; validation itself is not modelled under Kani.
  pub fn utf8_text<'a>(&self, source: &'a [u8]) -> Result<Cow<'a, str>, std::str::Utf8Error> {
    let s = self.d().start as usize;
    let e = self.d().end as usize;
    let e = if e > source.len() { source.len() } else { e };
    let s = if s > e { e } else { s };
    #[cfg(kani)]
    {
      Ok(Cow::Borrowed(unsafe {
        std::str::from_utf8_unchecked(&source[s..e])
      }))
    }
    #[cfg(not(kani))]
    {
      std::str::from_utf8(&source[s..e]).map(Cow::Borrowed)
    }
  }
  pub fn utf16_text<'a>(&self, source: &'a [u16]) -> &'a [u16] {
    &source[self.d().start as usize / 2..self.d().end as usize / 2]
  }
  pub fn walk(&self) -> TreeCursor<'tree> {
    TreeCursor {
      tree: self.tree,
      cur: self.idx,
      scope: self.idx,
    }
  }
}

/// allocation-free child iterator
pub struct ChildIter<'tree> {
  tree: &'tree TreeData,
  cur: u8,
  remaining: usize,
}
impl<'tree> Iterator for ChildIter<'tree> {
  type Item = Node<'tree>;
  fn next(&mut self) -> Option<Self::Item> {
    if self.remaining == 0 || self.cur == NIL {
      return None;
    }
    let n = Node {
      tree: self.tree,
      idx: self.cur,
    };
    self.cur = self.tree.nodes[self.cur as usize].next;
    self.remaining -= 1;
    Some(n)
  }
  fn size_hint(&self) -> (usize, Option<usize>) {
    (self.remaining, Some(self.remaining))
  }
}
impl<'tree> ExactSizeIterator for ChildIter<'tree> {}

impl<'a> Ord for Node<'a> {
  fn cmp(&self, other: &Self) -> std::cmp::Ordering {
    self.idx.cmp(&other.idx)
  }
}
impl<'a> PartialOrd for Node<'a> {
  fn partial_cmp(&self, other: &Self) -> Option<std::cmp::Ordering> {
    Some(self.cmp(other))
  }
}

// ---------------------------------------------------------------------------------------
// TreeCursor

#[derive(Clone)]
pub struct TreeCursor<'a> {
  tree: &'a TreeData,
  cur: u8,
  scope: u8,
}

impl<'a> TreeCursor<'a> {
  pub fn field_id(&self) -> Option<u16> {
    if self.cur == self.scope {
      // a fresh cursor does not know the field of its scope root
      return None;
    }
    let f = self.tree.nodes[self.cur as usize].field;
    if f == 0 {
      None
    } else {
      Some(f)
    }
  }
  pub fn field_name(&self) -> Option<Cow<str>> {
    self.field_id().and_then(|f| Language.field_name_for_id(f)).map(|c| Cow::Owned(c.into_owned()))
  }
  pub fn goto_first_child(&mut self) -> bool {
    let c = self.tree.nodes[self.cur as usize].first_child;
    if c == NIL {
      false
    } else {
      self.cur = c;
      true
    }
  }
  pub fn goto_first_child_for_byte(&mut self, index: u32) -> Option<u32> {
    let mut c = self.tree.nodes[self.cur as usize].first_child;
    let mut k = 0u32;
    let mut guard = 0;
    while c != NIL && guard < MAXN {
      if self.tree.nodes[c as usize].end > index {
        self.cur = c;
        return Some(k);
      }
      c = self.tree.nodes[c as usize].next;
      k += 1;
      guard += 1;
    }
    None
  }
  pub fn goto_next_sibling(&mut self) -> bool {
    if self.cur == self.scope {
      return false;
    }
    let c = self.tree.nodes[self.cur as usize].next;
    if c == NIL {
      false
    } else {
      self.cur = c;
      true
    }
  }
  pub fn goto_previous_sibling(&mut self) -> bool {
    if self.cur == self.scope {
      return false;
    }
    let c = self.tree.nodes[self.cur as usize].prev;
    if c == NIL {
      false
    } else {
      self.cur = c;
      true
    }
  }
  pub fn goto_parent(&mut self) -> bool {
    if self.cur == self.scope {
      return false;
    }
    let c = self.tree.nodes[self.cur as usize].parent;
    if c == NIL {
      false
    } else {
      self.cur = c;
      true
    }
  }
  pub fn node(&self) -> Node<'a> {
    Node {
      tree: self.tree,
      idx: self.cur,
    }
  }
  pub fn reset(&mut self, node: Node<'a>) {
    self.tree = node.tree;
    self.cur = node.idx;
    self.scope = node.idx;
  }
}

// ---------------------------------------------------------------------------------------
// Parser

pub struct Parser {
  has_lang: bool,
}

impl Parser {
  pub fn new() -> Result<Self, ParserError> {
    Ok(Parser { has_lang: false })
  }
  pub fn language(&self) -> Option<Language> {
    if self.has_lang {
      Some(Language)
    } else {
      None
    }
  }
  /// returns the next queued tree; the text is ignored (the harness decides which tree a
  /// text "parses" to).  `Ok(None)` when the queue is empty, like a parser without a
  /// language.
  pub fn parse(
    &mut self,
    _text: impl AsRef<[u8]>,
    old_tree: Option<&Tree>,
  ) -> Result<Option<Tree>, ParserError> {
    unsafe {
      PARSE_CALLS += 1;
      LAST_PARSE_HAD_OLD = old_tree.is_some();
      if let Some(t) = old_tree {
        LAST_PARSE_OLD_EDITS = t.data.edits;
        LAST_PARSE_OLD_EDIT = t.data.last_edit;
      }
    }
    Ok(pop_tree().map(Tree::from_data))
  }
  pub fn reset(&mut self) {}
  pub fn set_included_ranges(&mut self, _ranges: &[Range]) -> Result<(), IncludedRangesError> {
    Ok(())
  }
  pub fn set_language(&mut self, _language: &Language) -> Result<(), LanguageError> {
    self.has_lang = true;
    Ok(())
  }
}

pub struct TreeSitter;
