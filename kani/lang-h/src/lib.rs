//! Kani harnesses over the real `ast-grep-language` crate built WITHOUT its generated C
//! grammars (cargo feature `builtin-parser` off): per-language expando character,
//! `pre_process_pattern` and `extract_meta_var`.  See /verif/DESIGN.md (C20).
#![allow(dead_code, unused_imports, unconditional_panic, clippy::all)]

#[cfg(any(kani, test))]
mod c20_lang_spelling;
