//! C20 first clause: "in every built-in language the spellings `$A`, `$$A`, `$_`, `$$$`,
//! `$$$A` (likewise `$$_`, `$$$_`) denote a named-node capture, an any-node capture, a
//! non-capturing hole, an anonymous ellipsis and a named ellipsis, with identical meaning in
//! every language; lower-case names, digit-first names and lone sigils are never holes".
//!
//! Decided on the real per-language pipeline for one pattern token: the user's spelling `s`
//! goes through `SupportLang::pre_process_pattern` (sigil -> the language's expando
//! character) and the resulting leaf text through `SupportLang::extract_meta_var`; the
//! outcome must be the language-independent table `spec(s)`.
//! Outside (grammar, FFI): that the language's tokenizer keeps the pre-processed spelling
//! as one leaf.
use ast_grep_core::language::Language;
use ast_grep_core::meta_var::MetaVariable;
use ast_grep_language::SupportLang;

fn is_first(c: u8) -> bool {
  c.is_ascii_uppercase() || c == b'_'
}
fn is_rest(c: u8) -> bool {
  is_first(c) || c.is_ascii_digit()
}

#[derive(PartialEq, Eq, Debug)]
pub enum Spec<'a> {
  NotAHole,
  Capture(&'a [u8], bool),
  Dropped(bool),
  Multiple,
  MultiCapture(&'a [u8]),
}

/// the table of the property for a spelling that starts with the sigil `$`
pub fn spec(s: &[u8]) -> Spec<'_> {
  let mut sigils = 0;
  while sigils < s.len() && sigils < 3 && s[sigils] == b'$' {
    sigils += 1;
  }
  if sigils == 0 {
    return Spec::NotAHole;
  }
  let name = &s[sigils..];
  let mut all_rest = true;
  let mut i = 0;
  while i < name.len() {
    if !is_rest(name[i]) {
      all_rest = false;
    }
    i += 1;
  }
  if sigils == 3 {
    if name.is_empty() {
      return Spec::Multiple;
    }
    if !all_rest {
      return Spec::NotAHole;
    }
    if name[0] == b'_' {
      return Spec::Multiple;
    }
    return Spec::MultiCapture(name);
  }
  if name.is_empty() || !is_first(name[0]) || !all_rest {
    return Spec::NotAHole;
  }
  let named = sigils == 1;
  if name[0] == b'_' {
    Spec::Dropped(named)
  } else {
    Spec::Capture(name, named)
  }
}

pub fn agrees(got: &Option<MetaVariable>, want: &Spec) -> bool {
  match (got, want) {
    (None, Spec::NotAHole) => true,
    (Some(MetaVariable::Capture(n, named)), Spec::Capture(m, wn)) => n.as_bytes() == *m && named == wn,
    (Some(MetaVariable::Dropped(named)), Spec::Dropped(wn)) => named == wn,
    (Some(MetaVariable::Multiple), Spec::Multiple) => true,
    (Some(MetaVariable::MultiCapture(n)), Spec::MultiCapture(m)) => n.as_bytes() == *m,
    _ => false,
  }
}

pub fn real(lang: SupportLang, s: &str) -> Option<MetaVariable> {
  let p = lang.pre_process_pattern(s);
  let r = lang.extract_meta_var(&p);
  std::mem::forget(p);
  r
}

#[cfg(test)]
mod tests {
  use super::*;
  #[test]
  fn sweep() {
    let alpha = b"$AZa0_";
    let mut bad = std::collections::BTreeMap::<String, Vec<String>>::new();
    for len in 1..=5usize {
      let mut idx = vec![0usize; len];
      loop {
        let s: Vec<u8> = idx.iter().map(|&i| alpha[i]).collect();
        if s[0] == b'$' {
          let st = std::str::from_utf8(&s).unwrap();
          for &l in SupportLang::all_langs() {
            let got = real(l, st);
            if !agrees(&got, &spec(&s)) {
              bad.entry(format!("{l:?} expando={:?}", l.expando_char())).or_default().push(format!("{st} -> {got:?}"));
            }
          }
        }
        let mut k = 0;
        while k < len {
          idx[k] += 1;
          if idx[k] < alpha.len() { break; }
          idx[k] = 0;
          k += 1;
        }
        if k == len { break; }
      }
    }
    for (l, v) in &bad {
      println!("{l}: {} disagreements, e.g. {:?}", v.len(), &v[..v.len().min(12)]);
    }
    assert!(bad.is_empty());
  }
}

#[cfg(test)]
mod table_tests {
  use super::*;
  #[test]
  fn table_native() {
    for &l in SupportLang::all_langs() {
      for s in ["$A", "$Z", "$$A", "$_", "$$_", "$$$", "$$$A", "$$$_", "$_X", "$$_X", "$$$_X", "$A_1", "$ZA", "$$Z0",
                "$a", "$1", "$", "$$", "$$$$", "$$$$A", "$Aa", "$$$a", "$A$B", "A"] {
        assert!(agrees(&real(l, s), &spec(s.as_bytes())), "{l:?} {s} -> {:?}", real(l, s));
      }
    }
  }
}

#[cfg(kani)]
mod proofs {
  use super::*;

  /// one concrete spelling length (heap strings of symbolic length exhaust the back end),
  /// symbolic bytes over {$, A, Z, a, 0, _}; the spelling starts with the sigil
  fn check_len(lang: SupportLang, len: usize) {
    let mut buf = [b'$'; 8];
    let mut i = 1;
    while i < 8 {
      if i < len {
        let c: u8 = kani::any();
        kani::assume(c == b'$' || c == b'A' || c == b'Z' || c == b'a' || c == b'0' || c == b'_');
        buf[i] = c;
      }
      i += 1;
    }
    let s = unsafe { std::str::from_utf8_unchecked(&buf[..len]) };
    let want = spec(&buf[..len]);
    #[cfg(feature = "kf_expando_underscore")]
    {
      // known finding (known_findings.txt): languages whose expando character is `_`
      // mis-read spellings whose name starts with `_` and spellings with a second sigil run
      if lang.expando_char() == '_' {
        let mut k = 0;
        while k < len && buf[k] == b'$' {
          k += 1;
        }
        let mut later_sigil = false;
        let mut j = k;
        while j < len {
          if buf[j] == b'$' {
            later_sigil = true;
          }
          j += 1;
        }
        kani::assume(!(k < len && buf[k] == b'_') && !later_sigil);
      }
    }
    let got = real(lang, s);
    if len >= 3 {
      kani::cover!(matches!(want, Spec::Capture(_, true)));
      kani::cover!(matches!(want, Spec::Capture(_, false)));
      kani::cover!(matches!(want, Spec::NotAHole));
    }
    if len >= 4 {
      kani::cover!(matches!(want, Spec::MultiCapture(_)));
      kani::cover!(matches!(want, Spec::Dropped(false)));
    }
    assert!(agrees(&got, &want), "spelling means the same in every language");
    std::mem::forget(got);
  }

  /// one spelling *shape*: `k` sigils followed by `m` name characters (symbolic over
  /// {A, Z, a, 0, _}); the number of characters is concrete, so the heap containers of
  /// `pre_process_pattern` have concrete element counts
  fn check_shape(lang: SupportLang, k: usize, m: usize) {
    let mut buf = [b'$'; 8];
    let mut i = 0;
    while i < 8 {
      if i >= k && i < k + m {
        buf[i] = if kani::any() {
          b'A'
        } else if kani::any() {
          b'Z'
        } else if kani::any() {
          b'a'
        } else if kani::any() {
          b'0'
        } else {
          b'_'
        };
      }
      i += 1;
    }
    let len = k + m;
    let s = unsafe { std::str::from_utf8_unchecked(&buf[..len]) };
    let want = spec(&buf[..len]);
    let got = real(lang, s);
    if k <= 2 && m >= 1 {
      kani::cover!(matches!(want, Spec::Capture(_, _)));
      kani::cover!(matches!(want, Spec::NotAHole));
      kani::cover!(matches!(want, Spec::Dropped(_)));
    }
    assert!(agrees(&got, &want), "spelling means the same in every language");
    std::mem::forget(got);
  }

  /// lab record: fully symbolic spellings through one language's pipeline (the element
  /// count of `pre_process_pattern`'s `Vec<char>` becomes symbolic: out of memory, DESIGN 3)
  #[kani::proof]
  #[kani::unwind(14)]
  fn c20_lang_spelling_rust_len3() {
    check_len(SupportLang::Rust, 3);
  }
  #[kani::proof]
  #[kani::unwind(18)]
  fn c20_lang_shape_rust_2_2() {
    check_shape(SupportLang::Rust, 2, 2);
  }

  /// The spellings the property names (and their near misses), through the real pipeline of
  /// a *symbolic* language: the solver decides all 23 languages at once.  Spellings are
  /// concrete: a symbolic spelling makes the element count of `pre_process_pattern`'s
  /// `Vec<char>` symbolic, which exhausts the back end (DESIGN 3).
  const TABLE: [&str; 24] = [
    "$A", "$$A", "$_", "$$_", "$$$", "$$$A", // g0: the spellings the property names
    "$$$_", "$_X", "$$_X", "$$$_X", "$Z", "$A_1", // g1
    "$a", "$1", "$", "$$", "$$$$", "$$$$A", // g2: never holes
    "$ZA", "$$Z0", "$Aa", "$$$a", "$A$B", "A", // g3
  ];
  /// Every built-in language x the 24 spellings of TABLE through the real pipeline.  The
  /// language is a symbolic index, but the pipeline runs *inside* a guarded block per
  /// language (`if i == k`), so that inside each block the language -- hence the expando
  /// character, every container size and every pointer -- is concrete: merging the 23
  /// pre-processed strings into one symbolic `Cow<str>` first (a plain `langs[i]`) makes every
  /// byte read a 23-way pointer case split and does not finish in 15 min even for six
  /// spellings (DESIGN 3).  What the solver adds over running the 552 cases is nothing but
  /// the case split on `i`; the symbolic-input half of the claim is `extract_meta_var` over
  /// all strings (`c20_metavar_spelling_*`) and `c20_lang_expando_class`.
  /// `lo..hi` of TABLE through one language's pipeline (one pipeline run costs ~16 s of
  /// symbolic execution, so the 23 x 24 grid is split: quick = all 24 spellings for one
  /// representative of every expando class, thorough = the six spellings the property names
  /// for every language)
  fn pipeline_lang(lang: SupportLang, lo: usize, hi: usize) {
    // which spelling: a symbolic index, case-split so that each run is on a concrete string
    // (and so that a counterexample names the spelling and can be replayed)
    let t: usize = kani::any();
    kani::assume(t >= lo && t < hi);
    let mut k = lo;
    while k < hi {
      if t == k {
        let s = TABLE[k];
        let want = spec(s.as_bytes());
        let got = real(lang, s);
        assert!(agrees(&got, &want), "spelling means the same in every language");
        std::mem::forget(got);
      }
      k += 1;
    }
    kani::cover!(t == lo);
    kani::cover!(t + 1 == hi);
  }
  macro_rules! repr_harness {
    ($name:ident, $lang:ident) => {
      #[kani::proof]
      #[kani::unwind(25)]
      fn $name() {
        pipeline_lang(SupportLang::$lang, 0, 24);
      }
    };
  }
  repr_harness!(c20_lang_pipeline_rust, Rust);
  repr_harness!(c20_lang_pipeline_c, C);
  repr_harness!(c20_lang_pipeline_html, Html);
  repr_harness!(c20_lang_pipeline_java, Java);
  repr_harness!(c20_lang_pipeline_css, Css);

  /// the six spellings the property names through every other language (one harness per
  /// language, thorough tier).  A version with the language as a symbolic index, case-split,
  /// ran for > 50 min per six languages: every heap operation is then under a guard.
  macro_rules! named_harness {
    ($name:ident, $lang:ident) => {
      #[kani::proof]
      #[kani::unwind(25)]
      fn $name() {
        pipeline_lang(SupportLang::$lang, 0, 6);
      }
    };
  }
  named_harness!(c20_lang_named_bash, Bash);
  named_harness!(c20_lang_named_cpp, Cpp);
  named_harness!(c20_lang_named_csharp, CSharp);
  named_harness!(c20_lang_named_elixir, Elixir);
  named_harness!(c20_lang_named_go, Go);
  named_harness!(c20_lang_named_haskell, Haskell);
  named_harness!(c20_lang_named_javascript, JavaScript);
  named_harness!(c20_lang_named_json, Json);
  named_harness!(c20_lang_named_kotlin, Kotlin);
  named_harness!(c20_lang_named_lua, Lua);
  named_harness!(c20_lang_named_php, Php);
  named_harness!(c20_lang_named_python, Python);
  named_harness!(c20_lang_named_ruby, Ruby);
  named_harness!(c20_lang_named_scala, Scala);
  named_harness!(c20_lang_named_swift, Swift);
  named_harness!(c20_lang_named_tsx, Tsx);
  named_harness!(c20_lang_named_typescript, TypeScript);
  named_harness!(c20_lang_named_yaml, Yaml);

  /// every language: the expando character is not a character that can occur in a
  /// meta-variable spelling (sigil, [A-Z_0-9]) unless it is the sigil itself
  #[kani::proof]
  #[kani::unwind(25)]
  fn c20_lang_expando_class() {
    let langs = SupportLang::all_langs();
    assert!(langs.len() == 23);
    let i: usize = kani::any();
    kani::assume(i < 23);
    let e = langs[i].expando_char();
    kani::cover!(e != '$');
    kani::cover!(e == '$');
    assert!(e == '$' || !(e.is_ascii_uppercase() || e.is_ascii_digit() || e == '_'));
  }
}
