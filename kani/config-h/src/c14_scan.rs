//! C14-2 `suppress_iff` (and part of C01-6 `combined_dispatch`): the real
//! `CombinedScan::new/scan`, `Suppressions::collect/check_suppression`,
//! `parse_suppression_set` on statement lists with suppression comments.
//!
//! Shape class FLAT(k): root + k children; each child is a statement (kind ident -> rules
//! `ra` and `rb`, kind number -> rule `rb`) or a comment with one of four *concrete* texts; the
//! variant vector is enumerated by a concrete loop inside the harness (texts concrete, so
//! `contains("ast-grep-ignore")` folds), while the *line* of every child is symbolic
//! (monotone), which is what the property quantifies over.
use crate::c05_rel::kind_rule;
use crate::common::*;
use ast_grep_config::{CombinedScan, RuleConfig, SerializableRuleConfig, SerializableRuleCore, Severity};
use mock_ts::{K_COMMENT, K_IDENT, K_NUMBER, K_STMT};

#[derive(Clone, Copy, PartialEq, Eq, Debug)]
pub enum V {
  StmtA,
  StmtB,
  IgnoreAll,
  IgnoreRa,
  IgnoreRb,
  Plain,
}
pub const ALL_V: [V; 6] = [V::StmtA, V::StmtB, V::IgnoreAll, V::IgnoreRa, V::IgnoreRb, V::Plain];

pub fn text_of(v: V) -> &'static str {
  match v {
    V::StmtA => "a",
    V::StmtB => "1",
    V::IgnoreAll => "//ast-grep-ignore",
    V::IgnoreRa => "//ast-grep-ignore: ra",
    V::IgnoreRb => "//ast-grep-ignore: rb",
    V::Plain => "//x",
  }
}
pub fn kind_of(v: V) -> u16 {
  match v {
    V::StmtA => K_IDENT,
    V::StmtB => K_NUMBER,
    _ => K_COMMENT,
  }
}

pub fn rule_config(id: &str, rule: ast_grep_config::SerializableRule, fix: bool) -> RuleConfig<HL> {
  let core = SerializableRuleCore {
    rule,
    constraints: None,
    utils: None,
    transform: None,
    fix: if fix { Some(ast_grep_config::verif_hooks::SerializableFixer::Str(String::new())) } else { None },
  };
  let cfg = SerializableRuleConfig {
    core,
    id: id.to_string(),
    language: HL('$'),
    rewriters: None,
    message: String::new(),
    note: None,
    severity: Severity::Hint,
    files: None,
    ignores: None,
    url: None,
    metadata: None,
  };
  RuleConfig::try_from(cfg, &Default::default()).expect("valid rule config")
}

/// a `RuleConfig` whose matcher is built from parts (hook constructors): no YAML, no
/// `deserialize_rule` -- far cheaper to execute symbolically; `CombinedScan` only looks at
/// `id`, `fix.is_some()`, `severity` and the matcher
pub fn rule_config_direct(id: &str, rule: ast_grep_config::Rule<HL>, fix: bool) -> RuleConfig<HL> {
  let core = SerializableRuleCore {
    rule: ast_grep_config::SerializableRule::default(),
    constraints: None,
    utils: None,
    transform: None,
    fix: if fix { Some(ast_grep_config::verif_hooks::SerializableFixer::Str(String::new())) } else { None },
  };
  let cfg = SerializableRuleConfig {
    core,
    id: id.to_string(),
    language: HL('$'),
    rewriters: None,
    message: String::new(),
    note: None,
    severity: Severity::Hint,
    files: None,
    ignores: None,
    url: None,
    metadata: None,
  };
  ast_grep_config::verif_hooks::rule_config_from_parts(cfg, ast_grep_config::RuleCore::new(rule))
}

pub fn kind_of_id(k: u16) -> ast_grep_config::Rule<HL> {
  ast_grep_config::Rule::Kind(ast_grep_core::matcher::KindMatcher::from_id(k))
}

/// the unused-suppression rule: same shape as `CombinedScan::unused_config` (which parses
/// YAML and is therefore built programmatically here): `any: []`, with a fix
pub fn unused_rule() -> RuleConfig<HL> {
  let rule = ast_grep_config::SerializableRule {
    any: Some(Vec::new()).into(),
    ..Default::default()
  };
  let core = SerializableRuleCore {
    rule,
    constraints: None,
    utils: None,
    transform: None,
    fix: Some(ast_grep_config::verif_hooks::SerializableFixer::Str(String::new())),
  };
  let cfg = SerializableRuleConfig {
    core,
    id: "unused-suppression".to_string(),
    language: HL('$'),
    rewriters: None,
    message: String::new(),
    note: None,
    severity: Severity::Hint,
    files: None,
    ignores: None,
    url: None,
    metadata: None,
  };
  RuleConfig::try_from(cfg, &Default::default()).expect("valid")
}

/// build root + children; returns (tree, source)
pub fn build_tree(vs: &[V], rows: &[u32; 4]) -> (TreeData, String) {
  let k = vs.len();
  let parent = [0u8; MAXN];
  let mut d = TreeData::from_parents(k + 1, &parent);
  d.nodes[0].kind = K_STMT;
  let mut src = String::new();
  let mut off = 0u32;
  let mut i = 0;
  while i < k {
    let t = text_of(vs[i]);
    d.nodes[i + 1].kind = kind_of(vs[i]);
    d.nodes[i + 1].named = true;
    d.nodes[i + 1].start = off;
    d.nodes[i + 1].end = off + t.len() as u32;
    d.nodes[i + 1].srow = rows[i];
    d.nodes[i + 1].erow = rows[i];
    src.push_str(t);
    src.push(' ');
    off += t.len() as u32 + 1;
    i += 1;
  }
  d.nodes[0].start = 0;
  d.nodes[0].end = off;
  d.fix_named_counts();
  (d, src)
}

fn listed(v: V, rule_is_a: bool) -> bool {
  match v {
    V::IgnoreAll => true,
    V::IgnoreRa => rule_is_a,
    V::IgnoreRb => !rule_is_a,
    _ => false,
  }
}

/// reference semantics: is the finding (rule, child n) suppressed?
pub fn spec_suppressed(vs: &[V], rows: &[u32; 4], n: usize, rule_is_a: bool) -> bool {
  let mut c = 0;
  while c < vs.len() {
    if listed(vs[c], rule_is_a) {
      // "on its own line": no earlier sibling on the same line
      let own_line = c == 0 || rows[c - 1] != rows[c];
      if own_line && rows[c] + 1 == rows[n] {
        return true;
      }
      if !own_line && rows[c] == rows[n] {
        return true;
      }
    }
    c += 1;
  }
  false
}

/// run the real scan; returns for child i (1-based arena index) whether rule a / rule b
/// reported it, and which comments were reported unused
pub struct Observed {
  pub ra: [bool; 5],
  pub rb: [bool; 5],
  pub unused: [bool; 5],
  pub dup: bool,
}

/// the three rule configs (concrete), built once per harness
pub struct Rules {
  pub ra: RuleConfig<HL>,
  pub rb: RuleConfig<HL>,
  pub un: RuleConfig<HL>,
}
impl Rules {
  pub fn new() -> Self {
    // `ra` matches statements of kind a; `rb` matches statements of kind a AND kind b, so
    // two rules can report the same node (one may be suppressed while the other is not)
    use ast_grep_config::Rule;
    use ast_grep_core::ops::Any;
    Rules {
      ra: rule_config_direct("ra", kind_of_id(K_IDENT), false),
      rb: rule_config_direct("rb", Rule::Any(Any::new([kind_of_id(K_IDENT), kind_of_id(K_NUMBER)])), false),
      // same shape as `CombinedScan::unused_config`: `any: []` with a fix
      un: rule_config_direct("unused-suppression", Rule::Any(Any::new(std::iter::empty())), true),
    }
  }
}

pub fn run_scan(vs: &[V], rows: &[u32; 4]) -> Observed {
  let rules = Rules::new();
  let o = run_scan_with(&rules, vs, rows);
  std::mem::forget(rules);
  o
}

pub fn run_scan_with(rules: &Rules, vs: &[V], rows: &[u32; 4]) -> Observed {
  let (d, src) = build_tree(vs, rows);
  let g = mk_grep(&src, d);
  let mut scan = CombinedScan::new(vec![&rules.ra, &rules.rb]);
  scan.set_unused_suppression_rule(&rules.un);
  let res = scan.scan(&g, false);
  let mut o = Observed { ra: [false; 5], rb: [false; 5], unused: [false; 5], dup: false };
  for (rule, nms) in res.matches.iter() {
    for nm in nms.iter() {
      let i = nm.node_id() - 1;
      let slot = if rule.id == "ra" {
        &mut o.ra
      } else if rule.id == "rb" {
        &mut o.rb
      } else {
        &mut o.unused
      };
      if slot[i] {
        o.dup = true;
      }
      slot[i] = true;
    }
  }
  std::mem::forget(res);
  std::mem::forget(scan);
  std::mem::forget(g);
  std::mem::forget(src);
  o
}

/// the property for one layout
pub fn check_layout(vs: &[V], rows: &[u32; 4]) -> bool {
  let rules = Rules::new();
  let r = check_layout_with(&rules, vs, rows);
  std::mem::forget(rules);
  r
}

pub fn check_layout_with(rules: &Rules, vs: &[V], rows: &[u32; 4]) -> bool {
  let o = run_scan_with(rules, vs, rows);
  if o.dup {
    return false;
  }
  let mut i = 0;
  while i < vs.len() {
    let want_a = vs[i] == V::StmtA && !spec_suppressed(vs, rows, i, true);
    let want_b = (vs[i] == V::StmtA || vs[i] == V::StmtB) && !spec_suppressed(vs, rows, i, false);
    if o.ra[i + 1] != want_a || o.rb[i + 1] != want_b {
      return false;
    }
    i += 1;
  }
  true
}

#[cfg(test)]
mod tests {
  use super::*;
  #[test]
  fn next_line_and_same_line() {
    // comment on its own line suppresses the next line
    assert!(check_layout(&[V::IgnoreRa, V::StmtA], &[0, 1, 0, 0]));
    let o = run_scan(&[V::IgnoreRa, V::StmtA], &[0, 1, 0, 0]);
    assert!(!o.ra[2] && !o.unused[1]);
    // not listed -> reported, suppression unused
    let o = run_scan(&[V::IgnoreRb, V::StmtA], &[0, 1, 0, 0]);
    assert!(o.ra[2] && !o.rb[2] && !o.unused[1]);
    let o = run_scan(&[V::IgnoreRa, V::StmtB], &[0, 1, 0, 0]);
    assert!(o.rb[2] && o.unused[1]);
    // same line, after the statement
    let o = run_scan(&[V::StmtA, V::IgnoreAll], &[3, 3, 0, 0]);
    assert!(!o.ra[1]);
    assert!(check_layout(&[V::StmtA, V::IgnoreAll], &[3, 3, 0, 0]));
  }
}

#[cfg(kani)]
mod proofs {
  use super::*;

  fn any_rows(k: usize) -> [u32; 4] {
    let mut rows = [0u32; 4];
    let mut i = 0;
    while i < 4 {
      if i < k {
        let r: u32 = kani::any();
        kani::assume(r <= 4);
        if i > 0 {
          kani::assume(r >= rows[i - 1]);
        }
        rows[i] = r;
      }
      i += 1;
    }
    rows
  }

  /// one concrete variant vector, symbolic (monotone) lines
  fn layout(vs: &[V]) {
    let rows = any_rows(vs.len());
    let rules = Rules::new();
    let ok = check_layout_with(&rules, vs, &rows);
    kani::cover!(rows[0] == rows[1]);
    kani::cover!(rows[0] + 1 == rows[1]);
    assert!(ok, "finding reported <=> matched and not suppressed");
    std::mem::forget(rules);
  }

  macro_rules! layout_harness {
    ($name:ident, [$($v:expr),*]) => {
      #[kani::proof]
      #[kani::unwind(10)]
      #[kani::stub(regex::Regex::new, crate::stub_regex_new)]
      fn $name() {
        layout(&[$($v),*]);
      }
    };
  }
  // k = 2
  layout_harness!(c14_ignra_stmta, [V::IgnoreRa, V::StmtA]);
  layout_harness!(c14_ignrb_stmta, [V::IgnoreRb, V::StmtA]);
  layout_harness!(c14_stmta_ignall, [V::StmtA, V::IgnoreAll]);
  layout_harness!(c14_stmtb_ignra, [V::StmtB, V::IgnoreRa]);
  // k = 3
  layout_harness!(c14_ignra_stmta_ignrb, [V::IgnoreRa, V::StmtA, V::IgnoreRb]);
  layout_harness!(c14_stmta_ignall_stmtb, [V::StmtA, V::IgnoreAll, V::StmtB]);
  layout_harness!(c14_plain_ignrb_stmtb, [V::Plain, V::IgnoreRb, V::StmtB]);
  layout_harness!(c14_stmta_ignra_ignrb, [V::StmtA, V::IgnoreRa, V::IgnoreRb]);
}

#[cfg(test)]
mod explore {
  use super::*;
  #[test]
  #[ignore]
  fn brute_k3() {
    let mut bad = 0;
    for a in 0..6 { for b in 0..6 { for c in 0..6 {
      for r0 in 0..3u32 { for r1 in r0..r0+3 { for r2 in r1..r1+3 {
        let vs = [ALL_V[a], ALL_V[b], ALL_V[c]];
        let rows = [r0, r1, r2, 0];
        if !check_layout(&vs, &rows) {
          bad += 1;
          if bad <= 12 { println!("FAIL {:?} rows {:?}", vs, &rows[..3]); }
        }
      }}}
    }}}
    println!("bad = {bad}");
  }
}
