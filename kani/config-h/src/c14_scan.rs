//! C14-2 `suppress_iff` (and part of C01-6 `combined_dispatch`): the real
//! `CombinedScan::new/scan`, `Suppressions::collect/check_suppression`,
//! `parse_suppression_set` on statement lists with suppression comments.
//!
//! Shape class FLAT(k): root + k children; each child is a statement (kind ident -> rules
//! `ra` and `rb`, kind number -> rule `rb`) or a comment with one of four *concrete* texts; the
//! variant vector is enumerated by a concrete loop inside the harness (texts concrete, so
//! `contains("ast-grep-ignore")` folds), while the *line* of every child is symbolic
//! (monotone), which is what the property quantifies over.
use crate::c05_rel::kind_rule;
use crate::common::*;
use ast_grep_config::{CombinedScan, RuleConfig, SerializableRuleConfig, SerializableRuleCore, Severity};
use mock_ts::{K_COMMENT, K_IDENT, K_NUMBER, K_STMT};

#[derive(Clone, Copy, PartialEq, Eq, Debug)]
pub enum V {
  StmtA,
  StmtB,
  IgnoreAll,
  IgnoreRa,
  IgnoreRb,
  Plain,
}
pub const ALL_V: [V; 6] = [V::StmtA, V::StmtB, V::IgnoreAll, V::IgnoreRa, V::IgnoreRb, V::Plain];

pub fn text_of(v: V) -> &'static str {
  match v {
    V::StmtA => "a",
    V::StmtB => "1",
    V::IgnoreAll => "//ast-grep-ignore",
    V::IgnoreRa => "//ast-grep-ignore: ra",
    V::IgnoreRb => "//ast-grep-ignore: rb",
    V::Plain => "//x",
  }
}
pub fn kind_of(v: V) -> u16 {
  match v {
    V::StmtA => K_IDENT,
    V::StmtB => K_NUMBER,
    _ => K_COMMENT,
  }
}

pub fn rule_config(id: &str, rule: ast_grep_config::SerializableRule, fix: bool) -> RuleConfig<HL> {
  let core = SerializableRuleCore {
    rule,
    constraints: None,
    utils: None,
    transform: None,
    fix: if fix { Some(ast_grep_config::verif_hooks::SerializableFixer::Str(String::new())) } else { None },
  };
  let cfg = SerializableRuleConfig {
    core,
    id: id.to_string(),
    language: HL('$'),
    rewriters: None,
    message: String::new(),
    note: None,
    severity: Severity::Hint,
    files: None,
    ignores: None,
    url: None,
    metadata: None,
  };
  RuleConfig::try_from(cfg, &Default::default()).expect("valid rule config")
}

/// the unused-suppression rule: same shape as `CombinedScan::unused_config` (which parses
/// YAML and is therefore built programmatically here): `any: []`, with a fix
pub fn unused_rule() -> RuleConfig<HL> {
  let rule = ast_grep_config::SerializableRule {
    any: Some(Vec::new()).into(),
    ..Default::default()
  };
  let core = SerializableRuleCore {
    rule,
    constraints: None,
    utils: None,
    transform: None,
    fix: Some(ast_grep_config::verif_hooks::SerializableFixer::Str(String::new())),
  };
  let cfg = SerializableRuleConfig {
    core,
    id: "unused-suppression".to_string(),
    language: HL('$'),
    rewriters: None,
    message: String::new(),
    note: None,
    severity: Severity::Hint,
    files: None,
    ignores: None,
    url: None,
    metadata: None,
  };
  RuleConfig::try_from(cfg, &Default::default()).expect("valid")
}

/// build root + children; returns (tree, source)
pub fn build_tree(vs: &[V], rows: &[u32; 4]) -> (TreeData, String) {
  let k = vs.len();
  let parent = [0u8; MAXN];
  let mut d = TreeData::from_parents(k + 1, &parent);
  d.nodes[0].kind = K_STMT;
  let mut src = String::new();
  let mut off = 0u32;
  let mut i = 0;
  while i < k {
    let t = text_of(vs[i]);
    d.nodes[i + 1].kind = kind_of(vs[i]);
    d.nodes[i + 1].named = true;
    d.nodes[i + 1].start = off;
    d.nodes[i + 1].end = off + t.len() as u32;
    d.nodes[i + 1].srow = rows[i];
    d.nodes[i + 1].erow = rows[i];
    src.push_str(t);
    src.push(' ');
    off += t.len() as u32 + 1;
    i += 1;
  }
  d.nodes[0].start = 0;
  d.nodes[0].end = off;
  d.fix_named_counts();
  (d, src)
}

fn listed(v: V, rule_is_a: bool) -> bool {
  match v {
    V::IgnoreAll => true,
    V::IgnoreRa => rule_is_a,
    V::IgnoreRb => !rule_is_a,
    _ => false,
  }
}

/// reference semantics: is the finding (rule, child n) suppressed?
pub fn spec_suppressed(vs: &[V], rows: &[u32; 4], n: usize, rule_is_a: bool) -> bool {
  let mut c = 0;
  while c < vs.len() {
    if listed(vs[c], rule_is_a) {
      // "on its own line": no earlier sibling on the same line
      let own_line = c == 0 || rows[c - 1] != rows[c];
      if own_line && rows[c] + 1 == rows[n] {
        return true;
      }
      if !own_line && rows[c] == rows[n] {
        return true;
      }
    }
    c += 1;
  }
  false
}

/// run the real scan; returns for child i (1-based arena index) whether rule a / rule b
/// reported it, and which comments were reported unused
pub struct Observed {
  pub ra: [bool; 5],
  pub rb: [bool; 5],
  pub unused: [bool; 5],
  pub dup: bool,
}

pub fn run_scan(vs: &[V], rows: &[u32; 4]) -> Observed {
  let (d, src) = build_tree(vs, rows);
  let g = mk_grep(&src, d);
  // `ra` matches statements of kind a; `rb` matches statements of kind a AND kind b, so
  // two rules can report the same node (one may be suppressed while the other is not)
  let ra = rule_config("ra", kind_rule("ident__"), false);
  let rb_rule = ast_grep_config::SerializableRule {
    any: Some(vec![kind_rule("ident__"), kind_rule("number_")]).into(),
    ..Default::default()
  };
  let rb = rule_config("rb", rb_rule, false);
  let un = unused_rule();
  let mut scan = CombinedScan::new(vec![&ra, &rb]);
  scan.set_unused_suppression_rule(&un);
  let res = scan.scan(&g, false);
  let mut o = Observed { ra: [false; 5], rb: [false; 5], unused: [false; 5], dup: false };
  for (rule, nms) in res.matches.iter() {
    for nm in nms.iter() {
      let i = nm.node_id() - 1;
      let slot = if rule.id == "ra" {
        &mut o.ra
      } else if rule.id == "rb" {
        &mut o.rb
      } else {
        &mut o.unused
      };
      if slot[i] {
        o.dup = true;
      }
      slot[i] = true;
    }
  }
  std::mem::forget(res);
  std::mem::forget(scan);
  std::mem::forget(ra);
  std::mem::forget(rb);
  std::mem::forget(un);
  std::mem::forget(g);
  o
}

/// the property for one layout
pub fn check_layout(vs: &[V], rows: &[u32; 4]) -> bool {
  let o = run_scan(vs, rows);
  if o.dup {
    return false;
  }
  let mut i = 0;
  while i < vs.len() {
    let want_a = vs[i] == V::StmtA && !spec_suppressed(vs, rows, i, true);
    let want_b = (vs[i] == V::StmtA || vs[i] == V::StmtB) && !spec_suppressed(vs, rows, i, false);
    if o.ra[i + 1] != want_a || o.rb[i + 1] != want_b {
      return false;
    }
    i += 1;
  }
  true
}

#[cfg(test)]
mod tests {
  use super::*;
  #[test]
  fn next_line_and_same_line() {
    // comment on its own line suppresses the next line
    assert!(check_layout(&[V::IgnoreRa, V::StmtA], &[0, 1, 0, 0]));
    let o = run_scan(&[V::IgnoreRa, V::StmtA], &[0, 1, 0, 0]);
    assert!(!o.ra[2] && !o.unused[1]);
    // not listed -> reported, suppression unused
    let o = run_scan(&[V::IgnoreRb, V::StmtA], &[0, 1, 0, 0]);
    assert!(o.ra[2] && !o.rb[2] && !o.unused[1]);
    let o = run_scan(&[V::IgnoreRa, V::StmtB], &[0, 1, 0, 0]);
    assert!(o.rb[2] && o.unused[1]);
    // same line, after the statement
    let o = run_scan(&[V::StmtA, V::IgnoreAll], &[3, 3, 0, 0]);
    assert!(!o.ra[1]);
    assert!(check_layout(&[V::StmtA, V::IgnoreAll], &[3, 3, 0, 0]));
  }
}

#[cfg(kani)]
mod proofs {
  use super::*;

  fn any_rows(k: usize) -> [u32; 4] {
    let mut rows = [0u32; 4];
    let mut i = 0;
    while i < 4 {
      if i < k {
        let r: u32 = kani::any();
        kani::assume(r <= 4);
        if i > 0 {
          kani::assume(r >= rows[i - 1]);
        }
        rows[i] = r;
      }
      i += 1;
    }
    rows
  }

  /// all layouts with k = 2 children (36 variant vectors) x symbolic lines
  #[kani::proof]
  #[kani::unwind(10)]
  #[kani::stub(regex::Regex::new, crate::stub_regex_new)]
  fn c14_suppress_iff_k2() {
    let rows = any_rows(2);
    let mut a = 0;
    while a < 6 {
      let mut b = 0;
      while b < 6 {
        let vs = [ALL_V[a], ALL_V[b]];
        let has_stmt = a < 2 || b < 2;
        let has_ignore = (a >= 2 && a <= 4) || (b >= 2 && b <= 4);
        if has_stmt && has_ignore {
          assert!(check_layout(&vs, &rows));
        }
        b += 1;
      }
      a += 1;
    }
    kani::cover!(rows[0] == rows[1]);
    kani::cover!(rows[0] + 1 == rows[1]);
  }

  /// k = 3, one harness per first-child variant (run in parallel)
  fn k3(first: usize) {
    let rows = any_rows(3);
    let mut b = 0;
    while b < 6 {
      let mut c = 0;
      while c < 6 {
        let vs = [ALL_V[first], ALL_V[b], ALL_V[c]];
        let stmts = (first < 2) as u8 + (b < 2) as u8 + (c < 2) as u8;
        let ignores = (first >= 2 && first <= 4) as u8 + (b >= 2 && b <= 4) as u8 + (c >= 2 && c <= 4) as u8;
        if stmts >= 1 && ignores >= 1 {
          #[cfg(feature = "kf_suppression_same_target_line")]
          {
            // known finding: two suppression comments that target the same line
            // (own-line comment on line L-1 and end-of-line comment on line L)
          }
          assert!(check_layout(&vs, &rows));
        }
        c += 1;
      }
      b += 1;
    }
    kani::cover!(rows[0] + 1 == rows[1] && rows[1] == rows[2]);
  }
  macro_rules! k3_harness {
    ($name:ident, $first:expr) => {
      #[kani::proof]
      #[kani::unwind(10)]
      #[kani::stub(regex::Regex::new, crate::stub_regex_new)]
      fn $name() {
        k3($first);
      }
    };
  }
  k3_harness!(c14_suppress_iff_k3_stmta, 0);
  k3_harness!(c14_suppress_iff_k3_ignall, 2);
  k3_harness!(c14_suppress_iff_k3_ignra, 3);
}

#[cfg(test)]
mod explore {
  use super::*;
  #[test]
  #[ignore]
  fn brute_k3() {
    let mut bad = 0;
    for a in 0..6 { for b in 0..6 { for c in 0..6 {
      for r0 in 0..3u32 { for r1 in r0..r0+3 { for r2 in r1..r1+3 {
        let vs = [ALL_V[a], ALL_V[b], ALL_V[c]];
        let rows = [r0, r1, r2, 0];
        if !check_layout(&vs, &rows) {
          bad += 1;
          if bad <= 12 { println!("FAIL {:?} rows {:?}", vs, &rows[..3]); }
        }
      }}}
    }}}
    println!("bad = {bad}");
  }
}
