//! Small string/integer kernels of `ast-grep-config` driven through hook H2:
//!  * C20-5 `substring_python`: `resolve_char` vs Python slice index normalisation
//!  * C11-3 `transform_load_total`: `Transformation::used_vars` / `parse` on any `source`
//!  * C14-1 `suppress_set_parse`: `parse_suppression_set`
use crate::common::*;
use ast_grep_config::verif_hooks::combined::parse_suppression_set;
use ast_grep_config::verif_hooks::transformation::{resolve_char, substring};

/// Python's slice index normalisation for a sequence of length `len`
pub fn py_index(opt: Option<i32>, dft: i64, len: i64) -> i64 {
  let c = match opt {
    Some(c) => c as i64,
    None => dft,
  };
  if c < 0 {
    if c + len < 0 {
      0
    } else {
      c + len
    }
  } else if c > len {
    len
  } else {
    c
  }
}

/// reference reading of a suppression comment: the ids listed after
/// `ast-grep-ignore:` (comma separated, blanks trimmed); nothing after the keyword = all
pub fn spec_suppress(text: &[u8], out: &mut [(usize, usize); 4]) -> Option<usize> {
  // find keyword
  const KW: &[u8] = b"ast-grep-ignore";
  let mut at = None;
  let mut i = 0;
  while i + KW.len() <= text.len() {
    if &text[i..i + KW.len()] == KW {
      at = Some(i + KW.len());
      break;
    }
    i += 1;
  }
  let mut p = at?; // callers only pass comments containing the keyword
  let mut end = text.len();
  while end > p && text[end - 1] == b' ' {
    end -= 1;
  }
  while p < end && text[p] == b' ' {
    p += 1;
  }
  if p == end {
    return None; // all
  }
  // skip to ':'
  let mut c = p;
  while c < end && text[c] != b':' {
    c += 1;
  }
  if c == end {
    return None; // no list => all
  }
  let mut n = 0;
  let mut s = c + 1;
  loop {
    let mut e = s;
    while e < end && text[e] != b',' {
      e += 1;
    }
    let (mut a, mut b) = (s, e);
    while a < b && text[a] == b' ' {
      a += 1;
    }
    while b > a && text[b - 1] == b' ' {
      b -= 1;
    }
    out[n] = (a, b);
    n += 1;
    if e >= end {
      break;
    }
    s = e + 1;
  }
  Some(n)
}

#[cfg(test)]
mod tests {
  use super::*;
  #[test]
  fn vectors() {
    assert_eq!(resolve_char(&Some(-1), 0, 5), 4);
    assert_eq!(py_index(Some(-1), 0, 5), 4);
    assert_eq!(parse_suppression_set("// ast-grep-ignore"), None);
    let got = parse_suppression_set("// ast-grep-ignore: a, bb").unwrap();
    assert_eq!(got.len(), 2);
    let mut out = [(0, 0); 4];
    assert_eq!(spec_suppress(b"// ast-grep-ignore: a, bb", &mut out), Some(2));
  }
}

#[cfg(kani)]
mod proofs {
  use super::*;

  /// full i32 range for the index, every length a `chars().count() as i32` can produce
  #[kani::proof]
  fn c20_resolve_char_python() {
    let has: bool = kani::any();
    let c: i32 = kani::any();
    let opt = if has { Some(c) } else { None };
    let len: i32 = kani::any();
    let use_len_default: bool = kani::any();
    kani::assume(len >= 0);
    let dft = if use_len_default { len } else { 0 };
    let got = resolve_char(&opt, dft, len);
    let want = py_index(opt, dft as i64, len as i64);
    kani::cover!(has && c < 0 && got > 0);
    kani::cover!(has && c > len);
    assert!(got as i64 == want);
  }

  /// C11-3: any `source` string of a transformation: `used_vars` / `parse` must not panic.
  /// Lengths are concrete (loop), bytes symbolic over {$, A, a, 0xC3, 0xA9} constrained to
  /// valid UTF-8 (so `é` can appear anywhere, in particular first).
  fn source_total(len: usize) {
    let mut buf = [b'$'; 4];
    let mut i = 0;
    while i < 4 {
      if i < len {
        let c: u8 = kani::any();
        kani::assume(c == b'$' || c == b'A' || c == b'a' || c == 0xC3 || c == 0xA9);
        buf[i] = c;
      }
      i += 1;
    }
    // valid UTF-8: C3 is always followed by A9, A9 always preceded by C3
    let mut i = 0;
    while i < 4 {
      if i < len {
        if buf[i] == 0xC3 {
          kani::assume(i + 1 < len && buf[i + 1] == 0xA9);
        }
        if buf[i] == 0xA9 {
          kani::assume(i >= 1 && buf[i - 1] == 0xC3);
        }
      }
      i += 1;
    }
    #[cfg(feature = "kf_transform_source_first_char")]
    kani::assume(len >= 1 && buf[0] < 0x80);
    let s = as_str(&buf, len);
    let t = substring(s, None, None);
    let v = t.used_vars();
    if len == 3 {
      kani::cover!(v.len() == 2);
      kani::cover!(v.len() == 0);
    }
    let r = t.parse(&HL('$'));
    std::mem::forget(r);
    std::mem::forget(t);
  }

  #[kani::proof]
  #[kani::unwind(6)]
  #[kani::stub(regex::Regex::new, crate::stub_regex_new)]
  fn c11_transform_source_total() {
    let mut len = 0;
    while len <= 3 {
      source_total(len);
      len += 1;
    }
  }

  /// C14-1: the id list of a suppression comment; the tail length is concrete per call
  /// (loop in the harness), its bytes symbolic
  fn suppress_parse(tlen: usize) {
    let mut text = [b' '; 24];
    let prefix = b"// ast-grep-ignore";
    let mut i = 0;
    while i < prefix.len() {
      text[i] = prefix[i];
      i += 1;
    }
    let mut commas = 0;
    let mut i = 0;
    while i < 5 {
      if i < tlen {
        let c = any_of(b"ab:, ");
        text[prefix.len() + i] = c;
        if c == b',' {
          commas += 1;
        }
      }
      i += 1;
    }
    kani::assume(commas <= 3);
    let len = prefix.len() + tlen;
    let s = as_str(&text, len);
    let got = parse_suppression_set(s);
    let mut out = [(0usize, 0usize); 4];
    let want = spec_suppress(&text[..len], &mut out);
    if tlen == 5 {
      kani::cover!(matches!(want, Some(2)));
      kani::cover!(want.is_none());
    }
    match (got, want) {
      (None, None) => {}
      (Some(ids), Some(n)) => {
        let mut k = 0;
        while k < n {
          let (a, b) = out[k];
          assert!(ids.iter().any(|id| id.as_bytes() == &text[a..b]));
          k += 1;
        }
        for id in ids.iter() {
          let mut found = false;
          let mut k = 0;
          while k < n {
            let (a, b) = out[k];
            if id.as_bytes() == &text[a..b] {
              found = true;
            }
            k += 1;
          }
          assert!(found);
        }
        std::mem::forget(ids);
      }
      _ => panic!("all-vs-listed disagrees"),
    }
  }

  macro_rules! suppress_harness {
    ($name:ident, $t:expr) => {
      #[kani::proof]
      #[kani::unwind(26)]
      fn $name() {
        suppress_parse($t);
      }
    };
  }
  suppress_harness!(c14_suppress_set_parse_t0, 0);
  suppress_harness!(c14_suppress_set_parse_t1, 1);
  suppress_harness!(c14_suppress_set_parse_t2, 2);
  suppress_harness!(c14_suppress_set_parse_t3, 3);
  suppress_harness!(c14_suppress_set_parse_t4, 4);
  suppress_harness!(c14_suppress_set_parse_t5, 5);
}

/// C11 / C07-4 `string_case_split_total`: the word splitter behind `convert` never slices
/// off a char boundary and returns in-order, non-overlapping pieces of the input.
#[cfg(kani)]
mod proofs_case {
  use crate::common::*;
  use ast_grep_config::verif_hooks::string_case::split_default;

  /// text of exactly `len` bytes (concrete), bytes symbolic over {a, A, _, 0xC3, 0x89}
  /// restricted to valid UTF-8 (É = C3 89, an upper-case 2-byte char)
  fn check_len(len: usize) {
    let mut buf = [b'a'; 8];
    let mut i = 0;
    while i < 8 {
      if i < len {
        let c: u8 = kani::any();
        kani::assume(c == b'a' || c == b'A' || c == b'_' || c == 0xC3 || c == 0x89);
        buf[i] = c;
      }
      i += 1;
    }
    let mut i = 0;
    while i < 8 {
      if i < len {
        if buf[i] == 0xC3 {
          kani::assume(i + 1 < len && buf[i + 1] == 0x89);
        }
        if buf[i] == 0x89 {
          kani::assume(i >= 1 && buf[i - 1] == 0xC3);
        }
      }
      i += 1;
    }
    let s = as_str(&buf, len);
    let pieces = split_default(s);
    // pieces are sub-slices of `s`, in order, non-overlapping, non-empty, on char boundaries
    let base = s.as_ptr() as usize;
    let mut prev_end = 0;
    let mut i = 0;
    while i < pieces.len() {
      let p = pieces[i];
      let start = p.as_ptr() as usize - base;
      let end = start + p.len();
      assert!(!p.is_empty() && start >= prev_end && end <= len);
      assert!(is_boundary(&buf, len, start) && is_boundary(&buf, len, end));
      prev_end = end;
      i += 1;
    }
    if len >= 3 {
      kani::cover!(pieces.len() >= 2);
      kani::cover!(pieces.len() == 1);
    }
    std::mem::forget(pieces);
  }

  fn check<const NCH: usize, const NB: usize>() {
    let mut len = 0;
    while len <= NCH {
      check_len(len);
      len += 1;
    }
  }

  #[kani::proof]
  #[kani::unwind(10)]
  fn c11_string_case_split_len3() {
    check_len(3);
  }
  #[kani::proof]
  #[kani::unwind(10)]
  fn c11_string_case_split_len4() {
    check_len(4);
  }
  #[kani::proof]
  #[kani::unwind(10)]
  fn c11_string_case_split_4ch() {
    check::<4, 8>();
  }
  #[kani::proof]
  #[kani::unwind(10)]
  fn c11_string_case_split_5ch() {
    check::<5, 10>();
  }
}
