//! C20-4 / C11-1,2: `nthChild` An+B notation — real `parse_an_b` and
//! `FunctionalPosition::is_matched` (config/src/rule/nth_child.rs, via hook H2).
use crate::common::*;
use ast_grep_config::verif_hooks::nth_child::{is_matched, parse_an_b};

/// Reference reading of the notation (whitespace is insignificant):
///   formula := [sign] [digits] ('n'|'N') [sign digits]  |  [sign] digits
/// A = sign * (digits or 1), B = sign * digits (or 0).  Anything else is a syntax error.
/// Computed in i64; `None` = not in the language.
pub fn spec_parse(s: &[u8]) -> Option<(i64, i64)> {
  // strip ASCII whitespace
  let mut t = [0u8; 16];
  let mut n = 0;
  let mut i = 0;
  while i < s.len() {
    let c = s[i];
    if !(c == b' ' || (c >= 9 && c <= 13)) {
      t[n] = c;
      n += 1;
    }
    i += 1;
  }
  let t = &t[..n];
  let mut p = 0;
  let mut sign: i64 = 1;
  let mut had_sign = false;
  if p < n && (t[p] == b'+' || t[p] == b'-') {
    if t[p] == b'-' {
      sign = -1;
    }
    had_sign = true;
    p += 1;
  }
  let mut num: i64 = 0;
  let mut digits = 0;
  while p < n && t[p].is_ascii_digit() {
    num = num * 10 + (t[p] - b'0') as i64;
    digits += 1;
    p += 1;
  }
  if p == n {
    // plain number
    if digits == 0 {
      return None;
    }
    let _ = had_sign;
    return Some((0, sign * num));
  }
  if t[p] != b'n' && t[p] != b'N' {
    return None;
  }
  p += 1;
  let a = if digits == 0 { sign } else { sign * num };
  if p == n {
    return Some((a, 0));
  }
  let mut bsign: i64 = 1;
  if t[p] == b'+' || t[p] == b'-' {
    if t[p] == b'-' {
      bsign = -1;
    }
    p += 1;
  } else {
    return None;
  }
  let mut b: i64 = 0;
  let mut bd = 0;
  while p < n && t[p].is_ascii_digit() {
    b = b * 10 + (t[p] - b'0') as i64;
    bd += 1;
    p += 1;
  }
  if bd == 0 || p != n {
    return None;
  }
  Some((a, bsign * b))
}

/// i = A*n + B for some n >= 0 (1-based i), by bounded search
pub fn spec_selects(a: i64, b: i64, i: i64, max_n: i64) -> bool {
  let mut n = 0;
  while n <= max_n {
    if a * n + b == i {
      return true;
    }
    n += 1;
  }
  false
}

#[cfg(test)]
mod tests {
  use super::*;
  #[test]
  fn spec_vs_repo_vectors() {
    // vectors of the repo's own test_parse_selector / test_positional_an_b
    for (s, a, b) in [("2n+3", 2, 3), ("n", 1, 0), ("-n+4", -1, 4), ("5", 0, 5), ("+3n - 2", 3, -2), ("N", 1, 0), ("-5", 0, -5)] {
      assert_eq!(spec_parse(s.as_bytes()), Some((a, b)), "{s}");
      assert_eq!(parse_an_b(s), Ok((a as i32, b as i32)), "{s}");
    }
    for s in ["", "+", "n+", "2n3", "3+4", "nn", "a", "--1"] {
      assert_eq!(spec_parse(s.as_bytes()), None, "{s}");
      assert!(parse_an_b(s).is_err(), "{s}");
    }
  }
}

#[cfg(kani)]
mod proofs {
  use super::*;

  /// C20-4a: parse result == reference reading, for every string (digit runs short
  /// enough that no i32 overflow is involved; overflow is C11's harness below).
  fn parse_spec<const N: usize>() {
    let (buf, len) = any_bytes::<N, 7>(b"+-nN29 ");
    let s = as_str(&buf, len);
    let got = parse_an_b(s);
    let want = spec_parse(&buf[..len]);
    kani::cover!(matches!(want, Some((a, b)) if a < 0 && b > 0));
    kani::cover!(matches!(want, Some((a, b)) if a > 1 && b < 0));
    kani::cover!(want.is_none() && len >= 2);
    match (got, want) {
      (Ok((a, b)), Some((wa, wb))) => assert!(a as i64 == wa && b as i64 == wb),
      (Err(_), None) => {}
      _ => panic!("accept/reject disagrees with the reference reading"),
    }
  }

  #[kani::proof]
  #[kani::unwind(8)]
  fn c20_anb_parse_spec_n6() {
    parse_spec::<6>();
  }

  #[kani::proof]
  #[kani::unwind(11)]
  fn c20_anb_parse_spec_n9() {
    parse_spec::<9>();
  }

  /// C20-4b: selection semantics: index i (1-based) selected iff exists n>=0: i = A*n+B
  #[kani::proof]
  #[kani::unwind(20)]
  fn c20_anb_selects_small() {
    let a: i32 = kani::any();
    let b: i32 = kani::any();
    let idx: usize = kani::any();
    kani::assume(a >= -4 && a <= 4 && b >= -6 && b <= 6 && idx < 12);
    let got = is_matched(a, b, idx);
    let want = spec_selects(a as i64, b as i64, idx as i64 + 1, 18);
    kani::cover!(got && a < 0);
    kani::cover!(got && a > 1 && b < 0);
    kani::cover!(!got && a != 0);
    assert!(got == want);
  }

  /// C11-1: `parse_an_b` never panics (Kani's built-in overflow/index checks), strings
  /// long enough to overflow i32 while accumulating digits.
  #[kani::proof]
  #[kani::unwind(14)]
  fn c11_anb_parse_total_n12() {
    let (buf, len) = any_bytes::<12, 6>(b"+-n91 ");
    let s = as_str(&buf, len);
    let r = parse_an_b(s);
    kani::cover!(r.is_ok() && len == 12);
    kani::cover!(r.is_err() && len == 12);
  }

  /// C11-2: `is_matched` never panics for any step/offset a config can produce and any
  /// child index (overflow in `index - offset`, `i32::MIN / -1`).
  #[kani::proof]
  fn c11_nth_is_matched_total() {
    let a: i32 = kani::any();
    let b: i32 = kani::any();
    let idx: usize = kani::any();
    // a node has fewer than 2^31-1 named siblings (tree-sitter child counts are u32 and
    // source sizes are < 4 GiB; `(index + 1) as i32` is the code's own conversion)
    kani::assume(idx < 0x7fff_fffe);
    let r = is_matched(a, b, idx);
    kani::cover!(r && a != 0);
    kani::cover!(!r);
  }
}
