//! C12 `check_var_sound` + `accepted_fix_substitutes`: the real
//! `SerializableRuleCore::get_matcher` (deserialize_rule, Transform::deserialize with its
//! topological sort, Fixer::parse, check_var) decides which rule files are accepted; for an
//! accepted rule the real `RuleCore::match_node` + `Fixer::generate_replacement` must put
//! the captured / transformed value where the variable stands in the fix.
//!
//! Rule family ("valid parts, one reference perturbed symbolically"):
//!   rule: pattern `f($A, $B)`        (mock parse: call[ $A , $B ])
//!   constraints: none | {A: kind} | {C: kind}
//!   transform: T1 = substring(source s1), optionally T2 = substring(source s2)
//!   fix: `$V` in string form or `{template: $V}` object form
use crate::c05_rel::kind_rule;
use crate::common::*;
use ast_grep_config::verif_hooks::transformation::substring;
use ast_grep_config::verif_hooks::{fixer::fix_config, PatternStyle, SMap, SerializableFixer};
use ast_grep_config::{DeserializeEnv, RuleCore, SerializableRule, SerializableRuleCore};
use ast_grep_core::matcher::MatcherExt;
use ast_grep_core::replacer::Replacer;
use mock_ts::{K_CALL, K_IDENT, K_STMT};

pub const VARS: [&str; 5] = ["A", "B", "C", "T1", "T2"];

#[derive(Clone, Copy, Debug)]
pub struct Cfg {
  /// index into VARS of T1's source
  pub s1: usize,
  /// T2 present? and its source
  pub t2: Option<usize>,
  /// constraint key (index into VARS) if any
  pub cons: Option<usize>,
  /// variable used in the fix
  pub fixv: usize,
  /// object-form fix?
  pub object: bool,
}

/// tree for the pattern text `f($A, $B)`: program(call($A $B))
pub fn pattern_tree() -> (TreeData, &'static str) {
  let mut parent = [0u8; MAXN];
  parent[1] = 0;
  parent[2] = 1;
  parent[3] = 1;
  let mut d = TreeData::from_parents(4, &parent);
  d.nodes[0].kind = K_STMT;
  d.nodes[1].kind = K_CALL;
  d.nodes[2].kind = K_IDENT;
  d.nodes[3].kind = K_IDENT;
  d.layout(&[2; MAXN], &[0; MAXN]);
  d.fix_named_counts();
  (d, "$A$B")
}

/// candidate `f(x, yz)`: call(ident ident) with texts "p" and "qr"
pub fn candidate_tree() -> (TreeData, &'static str) {
  let mut parent = [0u8; MAXN];
  parent[1] = 0;
  parent[2] = 0;
  let mut d = TreeData::from_parents(3, &parent);
  d.nodes[0].kind = K_CALL;
  d.nodes[1].kind = K_IDENT;
  d.nodes[2].kind = K_IDENT;
  let mut w = [1u8; MAXN];
  w[2] = 2;
  d.layout(&w, &[0; MAXN]);
  d.fix_named_counts();
  (d, "pqr")
}

fn dollar(name: &str) -> String {
  let mut s = String::from("$");
  s.push_str(name);
  s
}

pub fn build(cfg: &Cfg) -> SerializableRuleCore {
  let rule = SerializableRule {
    pattern: Some(PatternStyle::Str("$A$B".to_string())).into(),
    ..Default::default()
  };
  let constraints = cfg.cons.map(|c| {
    let mut m = SMap::new();
    m.insert(VARS[c].to_string(), kind_rule("ident__"));
    m
  });
  let mut tr = SMap::new();
  tr.insert("T1".to_string(), substring(&dollar(VARS[cfg.s1]), None, None));
  if let Some(s2) = cfg.t2 {
    tr.insert("T2".to_string(), substring(&dollar(VARS[s2]), None, None));
  }
  let tpl = dollar(VARS[cfg.fixv]);
  let fix = if cfg.object { fix_config(&tpl, None, None) } else { SerializableFixer::Str(tpl) };
  SerializableRuleCore {
    rule,
    constraints,
    utils: None,
    transform: Some(tr),
    fix: Some(fix),
  }
}

/// reference: is the configuration acceptable, and which captured leaf does `var` denote
/// (0 = A, 1 = B) when everything resolves
pub fn spec(cfg: &Cfg) -> (bool, Option<usize>) {
  let has_t2 = cfg.t2.is_some();
  let defined = |v: usize| -> bool { v == 0 || v == 1 || v == 3 || (v == 4 && has_t2) };
  // constraints keys must be variables of the rule/utils/constraints (not transforms)
  if let Some(c) = cfg.cons {
    if !(c == 0 || c == 1) {
      return (false, None);
    }
  }
  if !defined(cfg.s1) {
    return (false, None);
  }
  if let Some(s2) = cfg.t2 {
    if !defined(s2) {
      return (false, None);
    }
  }
  if !defined(cfg.fixv) {
    return (false, None);
  }
  // resolve chains; detect cycles among T1/T2
  let resolve = |mut v: usize| -> Option<usize> {
    let mut steps = 0;
    while steps < 4 {
      if v == 0 || v == 1 {
        return Some(v);
      }
      v = if v == 3 { cfg.s1 } else { cfg.t2.unwrap() };
      steps += 1;
    }
    None
  };
  if resolve(3).is_none() || (has_t2 && resolve(4).is_none()) {
    return (false, None);
  }
  (true, resolve(cfg.fixv))
}

/// run the real code: Ok(replacement bytes) if the rule was accepted
pub fn run(cfg: &Cfg) -> Result<Vec<u8>, ()> {
  mock_ts::reset_queue();
  let (pt, _) = pattern_tree();
  mock_ts::push_tree(pt);
  let ser = build(cfg);
  let core: RuleCore<HL> = match ser.get_matcher(DeserializeEnv::new(HL('$'))) {
    Ok(c) => c,
    Err(_) => return Err(()),
  };
  let (ct, src) = candidate_tree();
  let g = mk_grep(src, ct);
  let nm = core.match_node(g.root()).expect("pattern f($A,$B) matches f(p, qr)");
  let fixer = core.fixer.as_ref().expect("fix present");
  let out = fixer.generate_replacement(&nm);
  std::mem::forget(nm);
  std::mem::forget(core);
  std::mem::forget(g);
  Ok(out)
}

#[cfg(test)]
mod tests {
  use super::*;
  #[test]
  fn accept_reject_vectors() {
    let ok = Cfg { s1: 0, t2: None, cons: Some(0), fixv: 3, object: false };
    assert_eq!(spec(&ok), (true, Some(0)));
    assert_eq!(run(&ok), Ok(b"p".to_vec()));
    let undefined = Cfg { s1: 2, t2: None, cons: None, fixv: 0, object: false };
    assert!(!spec(&undefined).0);
    assert!(run(&undefined).is_err());
    let cyc = Cfg { s1: 4, t2: Some(3), cons: None, fixv: 0, object: false };
    assert!(!spec(&cyc).0);
    assert!(run(&cyc).is_err());
    let chain = Cfg { s1: 1, t2: Some(3), cons: None, fixv: 4, object: false };
    assert_eq!(spec(&chain), (true, Some(1)));
    assert_eq!(run(&chain), Ok(b"qr".to_vec()));
  }
}

#[cfg(kani)]
mod proofs {
  use super::*;

  fn any_cfg(object: bool, with_t2: bool) -> Cfg {
    let s1: usize = kani::any();
    kani::assume(s1 < 5);
    let t2 = if with_t2 {
      let s2: usize = kani::any();
      kani::assume(s2 < 5);
      Some(s2)
    } else {
      None
    };
    let cons = if kani::any() {
      let c: usize = kani::any();
      kani::assume(c < 4);
      Some(c)
    } else {
      None
    };
    let fixv: usize = kani::any();
    kani::assume(fixv < 5);
    Cfg { s1, t2, cons, fixv, object }
  }

  fn check(object: bool, with_t2: bool) {
    let cfg = any_cfg(object, with_t2);
    let (accept, denotes) = spec(&cfg);
    #[cfg(feature = "kf_object_fix_ignores_transform")]
    if object {
      // known finding class: object-form fix whose template uses a transform variable
      kani::assume(cfg.fixv < 3);
    }
    let got = run(&cfg);
    kani::cover!(accept && cfg.fixv >= 3);
    kani::cover!(!accept && cfg.cons.is_none());
    match got {
      Err(()) => assert!(!accept, "a self-consistent rule was rejected"),
      Ok(out) => {
        assert!(accept, "an inconsistent rule was accepted");
        // converse clause: the variable occurrence is replaced by the captured/transformed value
        let want: &[u8] = if denotes == Some(0) { b"p" } else { b"qr" };
        assert!(out.as_slice() == want, "fix variable not substituted by its value");
        std::mem::forget(out);
      }
    }
  }

  #[kani::proof]
  #[kani::unwind(10)]
  #[kani::stub(regex::Regex::new, crate::stub_regex_new)]
  fn c12_check_var_str_t1() {
    check(false, false);
  }
  #[kani::proof]
  #[kani::unwind(10)]
  #[kani::stub(regex::Regex::new, crate::stub_regex_new)]
  fn c12_check_var_str_t2() {
    check(false, true);
  }
  #[kani::proof]
  #[kani::unwind(10)]
  #[kani::stub(regex::Regex::new, crate::stub_regex_new)]
  fn c12_check_var_obj_t1() {
    check(true, false);
  }
}
