//! C05 `nth_child_position`: the real `NthChild::match_node_with_env` (`find_index` over the
//! parent's named children, `reverse`, `FunctionalPosition::is_matched`) without `ofRule`,
//! against the rule reference: "the node is the (An+B)-th among its parent's *named*
//! children, counting from 1 (from the end when `reverse`)".
//!
//! Shape class ANY(4): every tree with <= 4 nodes (symbolic shape, kinds, named flags), every
//! node of it; A, B symbolic in small ranges; `reverse` symbolic.
use crate::common::*;
use ast_grep_config::verif_hooks::nth_child::nth_child_from_parts;
use ast_grep_core::meta_var::MetaVarEnv;
use ast_grep_core::Matcher;
use std::borrow::Cow;

/// reference: 1-based position of node `x` among the named children of its parent
pub fn spec_index(t: &TreeData, n: usize, parent: &[u8; MAXN], x: usize, reverse: bool) -> Option<i64> {
  if x == 0 || !t.nodes[x].named {
    return None;
  }
  let p = parent[x];
  let mut before = 0i64;
  let mut after = 0i64;
  let mut i = 1;
  while i < n {
    if parent[i] == p && t.nodes[i].named {
      if i < x {
        before += 1;
      }
      if i > x {
        after += 1;
      }
    }
    i += 1;
  }
  Some(if reverse { after + 1 } else { before + 1 })
}

/// exists m >= 0 with a*m + b == idx  (idx >= 1)
pub fn spec_anb(a: i32, b: i32, idx: i64) -> bool {
  let (a, b) = (a as i64, b as i64);
  let mut m = 0i64;
  while m <= 8 {
    if a * m + b == idx {
      return true;
    }
    m += 1;
  }
  false
}

/// reference with `ofRule: {kind: K}`: position of `x` among the named children of its parent
/// *that have kind K* (x itself must be one of them)
pub fn spec_index_of(t: &TreeData, n: usize, parent: &[u8; MAXN], x: usize, reverse: bool, k: u16) -> Option<i64> {
  if x == 0 || !t.nodes[x].named || t.nodes[x].kind != k {
    return None;
  }
  let p = parent[x];
  let mut before = 0i64;
  let mut after = 0i64;
  let mut i = 1;
  while i < n {
    if parent[i] == p && t.nodes[i].named && t.nodes[i].kind == k {
      if i < x {
        before += 1;
      }
      if i > x {
        after += 1;
      }
    }
    i += 1;
  }
  Some(if reverse { after + 1 } else { before + 1 })
}

pub fn real_matches_of(g: &ast_grep_core::AstGrep<ast_grep_core::StrDoc<HL>>, x: usize, a: i32, b: i32, reverse: bool, k: u16) -> bool {
  use ast_grep_config::verif_hooks::nth_child::nth_child_of_rule_from_parts;
  let of = ast_grep_config::Rule::Kind(ast_grep_core::matcher::KindMatcher::from_id(k));
  let m = nth_child_of_rule_from_parts::<HL>(a, b, reverse, of);
  let env = MetaVarEnv::new();
  let mut cow = Cow::Borrowed(&env);
  let node = node_at(g, x);
  let r = m.match_node_with_env(node, &mut cow).is_some();
  std::mem::forget(cow);
  std::mem::forget(env);
  std::mem::forget(m);
  r
}

pub fn real_matches(g: &ast_grep_core::AstGrep<ast_grep_core::StrDoc<HL>>, x: usize, a: i32, b: i32, reverse: bool) -> bool {
  let m = nth_child_from_parts::<HL>(a, b, reverse);
  let env = MetaVarEnv::new();
  let mut cow = Cow::Borrowed(&env);
  let node = node_at(g, x);
  let r = m.match_node_with_env(node, &mut cow).is_some();
  std::mem::forget(cow);
  std::mem::forget(env);
  std::mem::forget(m);
  r
}

#[cfg(test)]
mod tests {
  use super::*;
  #[test]
  fn of_rule_flat3() {
    // root -> 1 a 2   (number ident number), ofRule kind: number
    let parent = [0u8; MAXN];
    let mut d = TreeData::from_parents(4, &parent);
    let kinds = [mock_ts::K_IDENT, mock_ts::K_NUMBER, mock_ts::K_IDENT, mock_ts::K_NUMBER];
    for i in 0..4 {
      d.nodes[i].kind = kinds[i];
      d.nodes[i].named = true;
    }
    d.layout(&[1u8; MAXN], &[0u8; MAXN]);
    d.fix_named_counts();
    let dd = d.clone();
    let g = mk_grep(SRC_X, d);
    for x in 0..4 {
      for rev in [false, true] {
        for a in -1..=2 {
          for b in 0..=3 {
            let want = match spec_index_of(&dd, 4, &parent, x, rev, mock_ts::K_NUMBER) {
              Some(i) => spec_anb(a, b, i),
              None => false,
            };
            assert_eq!(real_matches_of(&g, x, a, b, rev, mock_ts::K_NUMBER), want, "x={x} rev={rev} a={a} b={b}");
          }
        }
      }
    }
  }
  #[test]
  fn flat3() {
    // root -> a b c, b unnamed
    let parent = [0u8; MAXN];
    let mut d = TreeData::from_parents(4, &parent);
    for i in 0..4 {
      d.nodes[i].kind = mock_ts::K_IDENT;
      d.nodes[i].named = i != 2;
    }
    let w = [1u8; MAXN];
    let gp = [0u8; MAXN];
    d.layout(&w, &gp);
    d.fix_named_counts();
    let dd = d.clone();
    let g = mk_grep(SRC_X, d);
    for x in 0..4 {
      for rev in [false, true] {
        for a in -2..=2 {
          for b in -2..=4 {
            let want = match spec_index(&dd, 4, &parent, x, rev) {
              Some(i) => spec_anb(a, b, i),
              None => false,
            };
            assert_eq!(real_matches(&g, x, a, b, rev), want, "x={x} rev={rev} a={a} b={b}");
          }
        }
      }
    }
  }
}

#[cfg(kani)]
mod proofs {
  use super::*;

  #[kani::proof]
  #[kani::unwind(10)]
  #[kani::stub(regex::Regex::new, crate::stub_regex_new)]
  fn c05k_nth_child_of_rule_n4() {
    let mut t = any_tree(4, 1);
    let mut i = 0;
    while i < MAXN {
      if i < 4 {
        let kd: u16 = kani::any();
        kani::assume(kd == mock_ts::K_IDENT || kd == mock_ts::K_NUMBER);
        t.data.nodes[i].kind = kd;
      }
      i += 1;
    }
    let x: usize = kani::any();
    kani::assume(x < t.n);
    let a: i32 = kani::any();
    let b: i32 = kani::any();
    kani::assume(a >= -1 && a <= 2 && b >= 0 && b <= 3);
    let reverse: bool = kani::any();
    let want = match spec_index_of(&t.data, t.n, &t.parent, x, reverse, mock_ts::K_NUMBER) {
      Some(i) => spec_anb(a, b, i),
      None => false,
    };
    let g = mk_grep(SRC_X, t.data.clone());
    let got = real_matches_of(&g, x, a, b, reverse, mock_ts::K_NUMBER);
    kani::cover!(want && reverse);
    kani::cover!(want && !reverse);
    kani::cover!(!want && x > 0 && t.data.nodes[x].named && t.data.nodes[x].kind != mock_ts::K_NUMBER);
    assert!(got == want, "nthChild ofRule: (An+B)-th among the named siblings that match the rule");
    std::mem::forget(g);
  }

  #[kani::proof]
  #[kani::unwind(10)]
  #[kani::stub(regex::Regex::new, crate::stub_regex_new)]
  fn c05k_nth_child_position_n4() {
    let t = any_tree(4, 1);
    let x: usize = kani::any();
    kani::assume(x < t.n);
    let a: i32 = kani::any();
    let b: i32 = kani::any();
    kani::assume(a >= -2 && a <= 2 && b >= -2 && b <= 4);
    let reverse: bool = kani::any();
    let want = match spec_index(&t.data, t.n, &t.parent, x, reverse) {
      Some(i) => spec_anb(a, b, i),
      None => false,
    };
    let data = t.data.clone();
    let g = mk_grep(SRC_X, data);
    let got = real_matches(&g, x, a, b, reverse);
    kani::cover!(want && reverse);
    kani::cover!(want && !reverse && a != 0);
    kani::cover!(!want && x > 0 && t.data.nodes[x].named);
    assert!(got == want, "nthChild: (An+B)-th named child of its parent, from the end when reverse");
    std::mem::forget(g);
  }

  #[kani::proof]
  #[kani::unwind(10)]
  #[kani::stub(regex::Regex::new, crate::stub_regex_new)]
  fn c05k_nth_child_position_n5() {
    let t = any_tree(5, 1);
    let x: usize = kani::any();
    kani::assume(x < t.n);
    let a: i32 = kani::any();
    let b: i32 = kani::any();
    kani::assume(a >= -2 && a <= 2 && b >= -2 && b <= 4);
    let reverse: bool = kani::any();
    let want = match spec_index(&t.data, t.n, &t.parent, x, reverse) {
      Some(i) => spec_anb(a, b, i),
      None => false,
    };
    let data = t.data.clone();
    let g = mk_grep(SRC_X, data);
    let got = real_matches(&g, x, a, b, reverse);
    kani::cover!(want && reverse);
    kani::cover!(want && !reverse && a != 0);
    kani::cover!(!want && x > 0 && t.data.nodes[x].named);
    assert!(got == want, "nthChild: (An+B)-th named child of its parent, from the end when reverse");
    std::mem::forget(g);
  }
}
