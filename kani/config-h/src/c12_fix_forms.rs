//! Cheap, direct harnesses for two config-level clauses (the end-to-end versions in
//! c11_transform.rs / c12_vars.rs need 30+ minutes of symbolic execution each):
//!
//!  * C11/C12 `replace_invalid_regex_rejected`: a `replace` transformation whose regex the
//!    regex crate rejects must be refused when the rule is loaded
//!    (`Transformation::parse`), not at the first match.
//!  * C12 `fix_forms_agree`: for the same template, the string form and the object form of
//!    `fix` substitute a *transformed* variable by its value.
use crate::common::*;
use ast_grep_config::verif_hooks::fixer::fix_config;
use ast_grep_config::verif_hooks::transformation::{replace, substring};
use ast_grep_config::verif_hooks::{SMap, SerializableFixer};
use ast_grep_config::{DeserializeEnv, Fixer};
use ast_grep_core::meta_var::{MetaVarEnv, MetaVariable};
use ast_grep_core::replacer::Replacer;
use ast_grep_core::NodeMatch;

/// output of the fix `$T` (string or object form) when T is a transformed variable = "v"
pub fn fix_output(object: bool) -> Vec<u8> {
  let env = DeserializeEnv::new(HL('$'));
  let mut tr = SMap::new();
  tr.insert("T".to_string(), substring("$A", None, None));
  let ser = if object { fix_config("$T", None, None) } else { SerializableFixer::Str("$T".to_string()) };
  let fixer = Fixer::parse(&ser, &env, &Some(tr)).expect("valid fix");
  let g = mk_grep("x", single_node(b"x", 0, 1));
  let mut menv = MetaVarEnv::new();
  menv.insert_transformation(&MetaVariable::Capture("A".to_string(), true), "T", b"v".to_vec());
  let nm = NodeMatch::new(g.root(), menv);
  let out = fixer.generate_replacement(&nm);
  std::mem::forget(nm);
  std::mem::forget(fixer);
  std::mem::forget(g);
  out
}

/// how the fixer's template classifies `$T` when T is a transform key:
/// 0 = captured node, 1 = multi capture, 2 = transformed variable
pub fn template_kind_of_t(object: bool) -> u8 {
  use ast_grep_config::verif_hooks::fixer::template_parts;
  let env = DeserializeEnv::new(HL('$'));
  let mut tr = SMap::new();
  tr.insert("T".to_string(), substring("$A", None, None));
  let ser = if object { fix_config("$T", None, None) } else { SerializableFixer::Str("$T".to_string()) };
  let tr = Some(tr);
  let fixer = Fixer::parse(&ser, &env, &tr).expect("valid fix");
  let (frags, vars) = template_parts(&fixer);
  let k = if vars.len() == 1 && vars[0].1 == "T" { vars[0].0 } else { 255 };
  std::mem::forget(frags);
  std::mem::forget(vars);
  std::mem::forget(fixer);
  std::mem::forget(tr);
  k
}

#[cfg(test)]
mod tests {
  use super::*;
  #[test]
  fn string_form_substitutes() {
    assert_eq!(fix_output(false), b"v".to_vec());
    assert_eq!(template_kind_of_t(false), 2);
  }
}

#[cfg(kani)]
mod proofs {
  use super::*;

  #[kani::proof]
  #[kani::unwind(10)]
  #[kani::stub(regex::Regex::new, crate::stub_regex_new)]
  fn c11_replace_invalid_regex_rejected() {
    // ST4: Regex::new fails (as it does for e.g. "("): loading must fail too
    let t = replace("$A", "(", "z");
    let r = t.parse(&HL('$'));
    kani::cover!(r.is_err());
    assert!(r.is_err(), "a `replace` transformation with an invalid regex was accepted at load time");
    std::mem::forget(r);
    std::mem::forget(t);
  }

  /// cheaper form of the same clause: both forms of `fix` must classify `$T` as the
  /// transformed variable (only then is it substituted by the transformed value)
  #[kani::proof]
  #[kani::unwind(10)]
  #[kani::stub(regex::Regex::new, crate::stub_regex_new)]
  fn c12_fix_forms_template_kind() {
    let object: bool = kani::any();
    #[cfg(feature = "kf_object_fix_ignores_transform")]
    kani::assume(!object);
    let k = template_kind_of_t(object);
    kani::cover!(k == 2);
    assert!(k == 2, "a transformed variable used in `fix` is not treated as transformed");
  }

  #[kani::proof]
  #[kani::unwind(10)]
  #[kani::stub(regex::Regex::new, crate::stub_regex_new)]
  fn c12_fix_forms_agree() {
    let object: bool = kani::any();
    #[cfg(feature = "kf_object_fix_ignores_transform")]
    kani::assume(!object);
    let out = fix_output(object);
    kani::cover!(out.len() == 1);
    assert!(out.as_slice() == b"v", "fix variable was not replaced by its transformed value");
    std::mem::forget(out);
  }
}
