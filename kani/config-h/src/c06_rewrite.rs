//! C06-5 `rewriter_splice`: the `rewrite` transformation (`Rewrite::compute`,
//! `find_and_make_edits`, `replace_one`, `make_edit`) relative to the captured text:
//! the result equals the captured text with exactly the rewriters' matched ranges
//! substituted, every other byte preserved.
//!
//! Rule:    pattern `f$$$R` over a flat list (mock parse: call[ f $$$R ])
//! Rewriter `rw`: `kind: number_`, fix `0`
//! Transform T = rewrite(source $$$R, rewriters [rw])
//! Candidate: call[f c1 .. ck], each child a number (1 byte, rewritten to "0"), an
//! identifier, or an anonymous separator -- symbolic; the capture may therefore *start*
//! with an anonymous node.
use crate::c05_rel::kind_rule;
use crate::common::*;
use ast_grep_config::verif_hooks::transformation::rewrite;
use ast_grep_config::verif_hooks::{PatternStyle, SMap, SerializableFixer};
use ast_grep_config::{GlobalRules, RuleConfig, SerializableRule, SerializableRuleConfig, SerializableRuleCore, Severity};
use ast_grep_core::matcher::MatcherExt;
use mock_ts::{K_CALL, K_IDENT, K_NUMBER, K_PUNCT_A, K_STMT};

pub fn pattern_tree_multi() -> TreeData {
  // text `f$$$R` parsed as program(call(f $$$R))
  let mut parent = [0u8; MAXN];
  parent[1] = 0;
  parent[2] = 1;
  parent[3] = 1;
  let mut d = TreeData::from_parents(4, &parent);
  d.nodes[0].kind = K_STMT;
  d.nodes[1].kind = K_CALL;
  d.nodes[2].kind = K_IDENT;
  d.nodes[3].kind = K_IDENT;
  let mut w = [4u8; MAXN];
  w[2] = 1;
  d.layout(&w, &[0; MAXN]);
  d.fix_named_counts();
  d
}

pub fn config() -> RuleConfig<HL> {
  mock_ts::reset_queue();
  mock_ts::push_tree(pattern_tree_multi());
  let rule = SerializableRule {
    pattern: Some(PatternStyle::Str("f$$$R".to_string())).into(),
    ..Default::default()
  };
  let mut tr = SMap::new();
  tr.insert("T".to_string(), rewrite("$$$R", vec!["rw".to_string()], None));
  let core = SerializableRuleCore {
    rule,
    constraints: None,
    utils: None,
    transform: Some(tr),
    fix: None,
  };
  let rewriter = ast_grep_config::verif_hooks::SerializableRewriter {
    core: SerializableRuleCore {
      rule: kind_rule("number_"),
      constraints: None,
      utils: None,
      transform: None,
      fix: Some(SerializableFixer::Str("0".to_string())),
    },
    id: "rw".to_string(),
  };
  let cfg = SerializableRuleConfig {
    core,
    id: "r".to_string(),
    language: HL('$'),
    rewriters: Some(vec![rewriter]),
    message: String::new(),
    note: None,
    severity: Severity::Hint,
    files: None,
    ignores: None,
    url: None,
    metadata: None,
  };
  RuleConfig::try_from(cfg, &GlobalRules::default()).expect("valid config")
}

/// kinds: 0 = number (text '7'), 1 = identifier ('x'), 2 = anonymous ','
pub fn candidate(kinds: &[u8]) -> (TreeData, [u8; 4]) {
  let k = kinds.len();
  let parent = [0u8; MAXN];
  let mut d = TreeData::from_parents(k + 2, &parent);
  d.nodes[0].kind = K_CALL;
  d.nodes[1].kind = K_IDENT;
  let mut src = [b' '; 4];
  src[0] = b'f';
  let mut i = 0;
  while i < k {
    let (kind, named, ch) = match kinds[i] {
      0 => (K_NUMBER, true, b'7'),
      1 => (K_IDENT, true, b'x'),
      _ => (K_PUNCT_A, false, b','),
    };
    d.nodes[i + 2].kind = kind;
    d.nodes[i + 2].named = named;
    src[i + 1] = ch;
    i += 1;
  }
  d.layout(&[1; MAXN], &[0; MAXN]);
  d.fix_named_counts();
  (d, src)
}

/// run the rule; returns the transformed value of T
pub fn rewritten(cfg: &RuleConfig<HL>, kinds: &[u8]) -> Option<Vec<u8>> {
  let (d, src) = candidate(kinds);
  let g = mk_grep(as_str(&src, kinds.len() + 1), d);
  let nm = cfg.matcher.match_node(g.root())?;
  let out = nm.get_env().get_transformed("T").cloned();
  std::mem::forget(nm);
  std::mem::forget(g);
  out
}

#[cfg(test)]
mod tests {
  use super::*;
  #[test]
  fn rewrite_numbers() {
    let cfg = config();
    assert_eq!(rewritten(&cfg, &[0, 2, 0]), Some(b"0,0".to_vec()));
    assert_eq!(rewritten(&cfg, &[2, 0, 1]), Some(b",0x".to_vec()));
    assert_eq!(rewritten(&cfg, &[1]), Some(b"x".to_vec()));
  }
}

#[cfg(kani)]
mod proofs {
  use super::*;

  fn splice(k: usize) {
    let cfg = config();
    let mut kinds = [0u8; 3];
    let mut i = 0;
    while i < 3 {
      if i < k {
        let v: u8 = kani::any();
        kani::assume(v < 3);
        kinds[i] = v;
      }
      i += 1;
    }
    let out = rewritten(&cfg, &kinds[..k]);
    assert!(out.is_some());
    let out = out.unwrap();
    // exactly the matched ranges substituted: same length here ("7" -> "0"), byte-wise
    assert!(out.len() == k);
    let mut i = 0;
    while i < 3 {
      if i < k {
        let want = match kinds[i] {
          0 => b'0',
          1 => b'x',
          _ => b',',
        };
        assert!(out[i] == want, "rewrite touched bytes outside the matched ranges or missed one");
      }
      i += 1;
    }
    kani::cover!(k >= 2 && kinds[0] == 2 && kinds[1] == 0);
    kani::cover!(k >= 2 && kinds[0] == 0 && kinds[1] == 0);
    std::mem::forget(out);
    std::mem::forget(cfg);
  }

  #[kani::proof]
  #[kani::unwind(10)]
  #[kani::stub(regex::Regex::new, crate::stub_regex_new)]
  fn c06_rewrite_splice_k2() {
    splice(2);
  }
  #[kani::proof]
  #[kani::unwind(10)]
  #[kani::stub(regex::Regex::new, crate::stub_regex_new)]
  fn c06_rewrite_splice_k3() {
    splice(3);
  }
}
