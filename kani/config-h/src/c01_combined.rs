//! C01-6 `combined_dispatch`: scanning many rules together (`CombinedScan::new` kind
//! dispatch table + `scan`) reports, per rule, exactly the nodes that rule matches when
//! tried on each node individually (`Node::find_all` with the same rule), in document
//! order.  Not covered: rules whose kind set contains the builtin ERROR kind (65535) --
//! `CombinedScan::new` grows its dispatch table with one `Vec::push` per kind id up to the
//! largest id, i.e. 65536 heap pushes, which the symbolic engine cannot unroll; sources may
//! still contain ERROR nodes.
use crate::c05_rel::kind_rule;
use crate::c14_scan::rule_config;
use crate::common::*;
use ast_grep_config::{CombinedScan, SerializableRule};
use ast_grep_core::matcher::MatcherExt;
use mock_ts::{ERROR_KIND, K_COMMENT, K_IDENT, K_NUMBER};

/// r0: kind ident (with fix); r1: kind comment; r2: any[number, comment]
pub fn rules() -> [ast_grep_config::RuleConfig<HL>; 3] {
  use crate::c14_scan::{kind_of_id, rule_config_direct};
  use ast_grep_config::Rule;
  use ast_grep_core::ops::Any;
  [
    rule_config_direct("r0", kind_of_id(K_IDENT), true),
    rule_config_direct("r1", kind_of_id(K_COMMENT), false),
    rule_config_direct("r2", Rule::Any(Any::new([kind_of_id(K_NUMBER), kind_of_id(K_COMMENT)])), false),
  ]
}

pub fn expected(rule: usize, kind: u16) -> bool {
  match rule {
    0 => kind == K_IDENT,
    1 => kind == K_COMMENT,
    _ => kind == K_NUMBER || kind == K_COMMENT,
  }
}

/// returns per rule the bitmask of reported node indices, plus an order/duplicate flag
pub fn scan_masks(g: &ast_grep_core::AstGrep<ast_grep_core::StrDoc<HL>>, separate_fix: bool) -> ([u8; 3], bool) {
  let rs = rules();
  let scan = CombinedScan::new(vec![&rs[2], &rs[0], &rs[1]]);
  let res = scan.scan(g, separate_fix);
  let mut masks = [0u8; 3];
  let mut ok = true;
  for (rule, nms) in res.matches.iter() {
    let r = if rule.id == "r0" { 0 } else if rule.id == "r1" { 1 } else { 2 };
    let mut prev = 0;
    for nm in nms.iter() {
      let i = nm.node_id() - 1;
      if masks[r] & (1 << i) != 0 || (i < prev) {
        ok = false;
      }
      prev = i;
      masks[r] |= 1 << i;
    }
  }
  for (rule, nm) in res.diffs.iter() {
    let r = if rule.id == "r0" { 0 } else if rule.id == "r1" { 1 } else { 2 };
    let i = nm.node_id() - 1;
    if masks[r] & (1 << i) != 0 {
      ok = false;
    }
    masks[r] |= 1 << i;
  }
  std::mem::forget(res);
  std::mem::forget(scan);
  std::mem::forget(rs);
  (masks, ok)
}

#[cfg(test)]
mod tests {
  use super::*;
  #[test]
  fn kinds_dispatched() {
    let mut parent = [0u8; MAXN];
    parent[2] = 0;
    let mut d = TreeData::from_parents(3, &parent);
    d.nodes[0].kind = 8;
    d.nodes[1].kind = K_COMMENT;
    d.nodes[2].kind = K_IDENT;
    let total = d.layout(&[1; MAXN], &[0; MAXN]) as usize;
    d.fix_named_counts();
    let g = mk_grep(&SRC_X[..total], d);
    let (m, ok) = scan_masks(&g, false);
    assert!(ok);
    assert_eq!(m, [0b100, 0b010, 0b010]);
    let (m, ok) = scan_masks(&g, true);
    assert!(ok);
    assert_eq!(m, [0b100, 0b010, 0b010]);
  }
}

#[cfg(kani)]
mod proofs {
  use super::*;

  fn dispatch(nmax: usize, separate_fix: bool) {
    let t = any_tree(nmax, 1);
    let g = mk_grep(&SRC_X[..t.total], t.data.clone());
    let (masks, ok) = scan_masks(&g, separate_fix);
    assert!(ok, "duplicate or out-of-order finding");
    let mut r = 0;
    while r < 3 {
      let mut i = 0;
      while i < MAXN {
        if i < t.n {
          let want = expected(r, t.data.nodes[i].kind);
          assert!((masks[r] & (1 << i) != 0) == want, "combined scan differs from matching each node individually");
        }
        i += 1;
      }
      r += 1;
    }
    kani::cover!(masks[1] != 0 && masks[0] != 0);
    kani::cover!(masks[2].count_ones() >= 2);
    std::mem::forget(g);
  }

  #[kani::proof]
  #[kani::unwind(10)]
  #[kani::stub(regex::Regex::new, crate::stub_regex_new)]
  fn c01_combined_dispatch_n3() {
    dispatch(3, false);
  }
  #[kani::proof]
  #[kani::unwind(10)]
  #[kani::stub(regex::Regex::new, crate::stub_regex_new)]
  fn c01_combined_dispatch_fix_n3() {
    dispatch(3, true);
  }
  #[kani::proof]
  #[kani::unwind(10)]
  #[kani::stub(regex::Regex::new, crate::stub_regex_new)]
  fn c01_combined_dispatch_n4() {
    dispatch(4, false);
  }
}
