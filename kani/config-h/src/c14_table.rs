//! C14 `suppress_iff`, the table kernel: the real `Suppressions::collect` (over
//! `root.dfs()`), `check_suppression`, `MaySuppressed::suppressed_id` and
//! `parse_suppression_set`, reached through the hook `suppression_verdict` -- i.e.
//! `CombinedScan::scan` without its rule loop (which needs `RuleConfig`/`RuleCore` and is out
//! of reach, DESIGN 3).
//!
//! Shape class FLAT(k), k = 2..3: root + k children, each a one-token statement or a comment
//! with one of four *concrete* texts (so `contains("ast-grep-ignore")` and `split_once` fold);
//! symbolic: the start line and the end line of every child (monotone), which child the
//! finding is on, and the two bytes of the finding's rule id.
use crate::c14_scan::{kind_of, text_of, V};
use crate::common::*;
use mock_ts::K_STMT;

pub const MAXK: usize = 3;

/// root + children; child i occupies lines srow[i]..=erow[i]
pub fn build(vs: &[V], srow: &[u32; MAXK], erow: &[u32; MAXK]) -> (TreeData, String) {
  let k = vs.len();
  let parent = [0u8; MAXN];
  let mut d = TreeData::from_parents(k + 1, &parent);
  d.nodes[0].kind = K_STMT;
  let mut src = String::new();
  let mut off = 0u32;
  let mut i = 0;
  while i < k {
    let t = text_of(vs[i]);
    d.nodes[i + 1].kind = kind_of(vs[i]);
    d.nodes[i + 1].named = true;
    d.nodes[i + 1].start = off;
    d.nodes[i + 1].end = off + t.len() as u32;
    d.nodes[i + 1].srow = srow[i];
    d.nodes[i + 1].erow = erow[i];
    src.push_str(t);
    src.push(' ');
    off += t.len() as u32 + 1;
    i += 1;
  }
  d.nodes[0].start = 0;
  d.nodes[0].end = off;
  d.nodes[0].srow = srow[0];
  d.nodes[0].erow = erow[k - 1];
  d.fix_named_counts();
  (d, src)
}

fn lists(v: V, id: &[u8; 2]) -> bool {
  match v {
    V::IgnoreAll => true,
    V::IgnoreRa => id == b"ra",
    V::IgnoreRb => id == b"rb",
    _ => false,
  }
}

/// reference semantics (property text): the finding on child `n` is silenced iff some
/// ignore comment that lists the id (or nothing) is on its own line directly above the line
/// where the finding starts, or follows other code on that very line
pub fn spec(vs: &[V], srow: &[u32; MAXK], erow: &[u32; MAXK], n: usize, id: &[u8; 2]) -> bool {
  let mut c = 0;
  while c < vs.len() {
    if lists(vs[c], id) {
      // own line: the previous sibling does not reach into the comment's line
      let own_line = c == 0 || erow[c - 1] != srow[c];
      if own_line && srow[c] + 1 == srow[n] {
        return true;
      }
      if !own_line && srow[c] == srow[n] {
        return true;
      }
    }
    c += 1;
  }
  false
}

/// does some *other* comment govern the same line as a listing comment? (D4: the table
/// keeps one entry per line)
pub fn real(vs: &[V], srow: &[u32; MAXK], erow: &[u32; MAXK], n: usize, id: &[u8; 2]) -> bool {
  let (d, src) = build(vs, srow, erow);
  let g = mk_grep(&src, d);
  let root = g.root();
  let node = node_at(&g, n + 1);
  let id = std::str::from_utf8(id).unwrap();
  let r = ast_grep_config::verif_hooks::combined::suppression_verdict(&root, &node, id).is_some();
  std::mem::forget(node);
  std::mem::forget(root);
  std::mem::forget(g);
  std::mem::forget(src);
  r
}

#[cfg(test)]
mod tests {
  use super::*;
  #[test]
  fn basics() {
    let vs = [V::IgnoreRa, V::StmtA];
    assert!(real(&vs, &[0, 1, 0], &[0, 1, 0], 1, b"ra"));
    assert!(!real(&vs, &[0, 1, 0], &[0, 1, 0], 1, b"rb"));
    assert!(!real(&vs, &[0, 2, 0], &[0, 2, 0], 1, b"ra"));
    let vs = [V::StmtA, V::IgnoreAll];
    assert!(real(&vs, &[3, 3, 0], &[3, 3, 0], 0, b"zz"));
    for n in 0..2 {
      assert_eq!(real(&vs, &[3, 3, 0], &[3, 3, 0], n, b"zz"), spec(&vs, &[3, 3, 0], &[3, 3, 0], n, b"zz"));
    }
  }

  /// native sweep used to validate the oracle (k = 3, lines <= 3, single- and two-line nodes)
  #[test]
  #[ignore]
  fn brute() {
    use crate::c14_scan::ALL_V;
    let mut bad = 0;
    let (mut bad_multi, mut bad_two) = (0, 0);
    for a in 0..6 { for b in 0..6 { for c in 0..6 {
      for r0 in 0..2u32 { for e0 in r0..r0 + 2 { for r1 in e0..e0 + 2 { for e1 in r1..r1 + 2 { for r2 in e1..e1 + 2 {
        let vs = [ALL_V[a], ALL_V[b], ALL_V[c]];
        let s = [r0, r1, r2];
        let e = [e0, e1, r2];
        for n in 0..3 { for id in [b"ra", b"rb", b"rc"] {
          if real(&vs, &s, &e, n, id) != spec(&vs, &s, &e, n, id) {
            let multi = e0 != r0 || e1 != r1;
            let ncom = vs.iter().filter(|v| matches!(v, V::IgnoreAll | V::IgnoreRa | V::IgnoreRb)).count();
            if multi { bad_multi += 1; continue; }
            if ncom >= 2 { bad_two += 1; continue; }
            bad += 1;
            if bad <= 12 { println!("FAIL {:?} s {:?} e {:?} n {} id {:?}", vs, s, e, n, std::str::from_utf8(id)); }
          }
        }}
      }}}}}
    }}}
    println!("bad = {bad} multi-line-prev = {bad_multi} two-comments = {bad_two}");
  }
}

#[cfg(kani)]
mod proofs {
  use super::*;

  fn any_lines(k: usize) -> ([u32; MAXK], [u32; MAXK]) {
    let mut s = [0u32; MAXK];
    let mut e = [0u32; MAXK];
    let mut i = 0;
    while i < MAXK {
      if i < k {
        let a: u32 = kani::any();
        let b: u32 = kani::any();
        kani::assume(a <= b && b <= 6);
        if i > 0 {
          kani::assume(a >= e[i - 1]);
        }
        s[i] = a;
        e[i] = b;
      }
      i += 1;
    }
    (s, e)
  }

  fn table(vs: &[V]) {
    let (s, e) = any_lines(vs.len());
    let n: usize = kani::any();
    kani::assume(n < vs.len());
    let id: [u8; 2] = kani::any();
    kani::assume(id[0] < 128 && id[1] < 128);
    let want = spec(vs, &s, &e, n, &id);
    let got = real(vs, &s, &e, n, &id);
    kani::cover!(want);
    kani::cover!(!want);
    assert!(got == want, "finding silenced <=> an ignore comment governs its line and lists its id");
  }


  /// Engine sanity, kept as the record of why this kernel is not claimed: a fully concrete
  /// run of the same code (no symbolic input at all) is reported FAILED by Kani 0.68 with
  /// "pointer invalid" in `Vec<String>::push` / `same_allocation: pointer to unallocated
  /// memory` as soon as `str::split_once`/`trim`/`split` run on text taken from the document
  /// buffer, while the same calls on a literal verify (DESIGN 3); natively (and on the CLI)
  /// the code is fine.
  #[kani::proof]
  #[kani::unwind(24)]
  fn c14_dbg_concrete() {
    let vs = [V::IgnoreRa, V::StmtA];
    assert!(real(&vs, &[0, 1, 0], &[0, 1, 0], 1, b"ra"));
  }

  macro_rules! table_harness {
    ($name:ident, [$($v:expr),*]) => {
      #[kani::proof]
      #[kani::unwind(24)]
      fn $name() {
        table(&[$($v),*]);
      }
    };
  }
  // k = 2
  table_harness!(c14_table_ignra_stmt, [V::IgnoreRa, V::StmtA]);
  table_harness!(c14_table_stmt_ignall, [V::StmtA, V::IgnoreAll]);
  table_harness!(c14_table_stmt_plain, [V::StmtA, V::Plain]);
  // k = 3
  table_harness!(c14_table_ignra_stmt_ignrb, [V::IgnoreRa, V::StmtA, V::IgnoreRb]);
  table_harness!(c14_table_stmt_ignall_stmt, [V::StmtA, V::IgnoreAll, V::StmtB]);
  table_harness!(c14_table_ignrb_ignra_stmt, [V::IgnoreRb, V::IgnoreRa, V::StmtB]);
  table_harness!(c14_table_stmt_stmt_ignrb, [V::StmtA, V::StmtB, V::IgnoreRb]);
}
