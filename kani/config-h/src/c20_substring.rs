//! C20 `substring`: the real `Substring::compute` (transformation `substring`) follows Python
//! slice semantics **on characters**: for a captured text `s`, `startChar: a`, `endChar: b`
//! (each optional, negative = from the end) the result is `s[a:b]`.
//!
//! Shape: the captured node is the root of a one-node tree over the fixed 10-byte text
//! `a é € 😀` (1+2+3+4 bytes, 4 characters: byte length, character count and every char
//! boundary differ), bound to `$A` in a real `MetaVarEnv` through `MetaVarEnv::insert`;
//! `startChar` / `endChar` symbolic (presence and value).
use crate::common::*;
use ast_grep_config::verif_hooks::transformation::{compute_with_env, substring};
use ast_grep_core::meta_var::MetaVarEnv;

pub const TEXT: &str = "a\u{e9}\u{20ac}\u{1F600}";
/// byte offset of character boundary i (0..=4)
pub const OFF: [usize; 5] = [0, 1, 3, 6, 10];
pub const NCH: i64 = 4;

/// Python's `slice.indices` for step 1
pub fn py_norm(opt: Option<i32>, dft: i64, len: i64) -> i64 {
  match opt {
    None => dft,
    Some(c) => {
      let c = c as i64;
      if c < 0 {
        if c + len < 0 { 0 } else { c + len }
      } else if c > len {
        len
      } else {
        c
      }
    }
  }
}

pub fn real_substring(start: Option<i32>, end: Option<i32>, through_node: bool) -> Option<String> {
  real_substring_of(TEXT, start, end, through_node)
}

pub const TEXT2: &str = "a\u{e9}";
pub const OFF2: [usize; 3] = [0, 1, 3];

pub fn real_substring_of(src: &'static str, start: Option<i32>, end: Option<i32>, through_node: bool) -> Option<String> {
  let g = mk_grep(src, single_node(src.as_bytes(), 0, src.len() as u32));
  let t = substring("$A", start, end).parse(&HL('$')).ok().unwrap();
  let mut env = MetaVarEnv::new();
  if through_node {
    env.insert("A", g.root());
  } else {
    let var = ast_grep_core::meta_var::MetaVariable::Capture("B".to_string(), true);
    env.insert_transformation(&var, "A", src.as_bytes().to_vec());
  }
  let r = compute_with_env(&t, &mut env);
  std::mem::forget(env);
  std::mem::forget(t);
  std::mem::forget(g);
  r
}

pub fn check(start: Option<i32>, end: Option<i32>, through_node: bool) -> bool {
  let lo = py_norm(start, 0, NCH);
  let hi = py_norm(end, NCH, NCH);
  let got = real_substring(start, end, through_node);
  let got = match got {
    Some(g) => g,
    None => return false,
  };
  let gb = got.as_bytes();
  let ok = if lo >= hi {
    gb.is_empty()
  } else {
    let (a, b) = (OFF[lo as usize], OFF[hi as usize]);
    let want = &TEXT.as_bytes()[a..b];
    let mut same = gb.len() == want.len();
    let mut i = 0;
    while i < 10 {
      if same && i < want.len() && gb[i] != want[i] {
        same = false;
      }
      i += 1;
    }
    same
  };
  std::mem::forget(got);
  ok
}

/// the same check on the 2-character / 3-byte text `aé` (small enough to be decided)
pub fn check2(start: Option<i32>, end: Option<i32>, through_node: bool) -> bool {
  let lo = py_norm(start, 0, 2);
  let hi = py_norm(end, 2, 2);
  let got = match real_substring_of(TEXT2, start, end, through_node) {
    Some(g) => g,
    None => return false,
  };
  let gb = got.as_bytes();
  let ok = if lo >= hi {
    gb.is_empty()
  } else {
    let (a, b) = (OFF2[lo as usize], OFF2[hi as usize]);
    let want = &TEXT2.as_bytes()[a..b];
    let mut same = gb.len() == want.len();
    let mut i = 0;
    while i < 3 {
      if same && i < want.len() && gb[i] != want[i] {
        same = false;
      }
      i += 1;
    }
    same
  };
  std::mem::forget(got);
  ok
}

#[cfg(test)]
mod tests {
  use super::*;
  #[test]
  fn vectors() {
    for through_node in [true, false] {
      assert_eq!(real_substring(Some(1), Some(-1), through_node).unwrap(), "\u{e9}\u{20ac}");
      assert_eq!(real_substring(None, Some(2), through_node).unwrap(), "a\u{e9}");
      assert_eq!(real_substring(Some(-1), None, through_node).unwrap(), "\u{1F600}");
      assert_eq!(real_substring(Some(3), Some(1), through_node).unwrap(), "");
      for s in -7..8 {
        for e in -7..8 {
          assert!(check(Some(s), Some(e), through_node), "{s} {e}");
        }
        assert!(check(Some(s), None, through_node));
        assert!(check(None, Some(s), through_node));
      }
      assert!(check(Some(i32::MIN), Some(i32::MAX), through_node));
      for s in -4..5 {
        for e in -4..5 {
          assert!(check2(Some(s), Some(e), through_node), "{s} {e}");
        }
        assert!(check2(Some(s), None, through_node) && check2(None, Some(s), through_node));
      }
    }
  }
}

#[cfg(kani)]
mod proofs {
  use super::*;

  fn body(through_node: bool) {
    let s: i32 = kani::any();
    let e: i32 = kani::any();
    let start = if kani::any() { Some(s) } else { None };
    let end = if kani::any() { Some(e) } else { None };
    kani::cover!(start.is_some() && s < 0 && s > -4 && end.is_some() && e > 0 && e < 4 && (s + 4) < e);
    kani::cover!(start.is_none() && end.is_some() && e == -1);
    kani::cover!(start.is_some() && end.is_some() && s > e && s < 4 && e >= 0);
    assert!(check(start, end, through_node), "substring == Python slice on characters");
  }

  fn body2(through_node: bool) {
    let s: i32 = kani::any();
    let e: i32 = kani::any();
    let start = if kani::any() { Some(s) } else { None };
    let end = if kani::any() { Some(e) } else { None };
    kani::cover!(start.is_some() && end.is_some() && s == 1 && e == -2);
    kani::cover!(start.is_none() && end.is_some() && e == -1);
    kani::cover!(start.is_some() && end.is_some() && s == 0 && e == 2);
    assert!(check2(start, end, through_node), "substring == Python slice on characters");
  }

  #[kani::proof]
  #[kani::unwind(6)]
  #[kani::stub(regex::Regex::new, crate::stub_regex_new)]
  fn c20_substring_2ch_transformed() {
    body2(false);
  }

  #[kani::proof]
  #[kani::unwind(6)]
  #[kani::stub(regex::Regex::new, crate::stub_regex_new)]
  fn c20_substring_2ch_node() {
    body2(true);
  }

  /// one index symbolic (full i32), the other absent
  fn body_one(sym_start: bool) {
    let v: i32 = kani::any();
    let (start, end) = if sym_start { (Some(v), None) } else { (None, Some(v)) };
    kani::cover!(v < 0 && v > -4);
    kani::cover!(v > 0 && v < 4);
    kani::cover!(v < -4);
    assert!(check(start, end, false), "substring == Python slice on characters");
  }

  #[kani::proof]
  #[kani::unwind(12)]
  #[kani::stub(regex::Regex::new, crate::stub_regex_new)]
  fn c20_substring_chars_start_only() {
    body_one(true);
  }

  #[kani::proof]
  #[kani::unwind(12)]
  #[kani::stub(regex::Regex::new, crate::stub_regex_new)]
  fn c20_substring_chars_end_only() {
    body_one(false);
  }

  #[kani::proof]
  #[kani::unwind(12)]
  #[kani::stub(regex::Regex::new, crate::stub_regex_new)]
  fn c20_substring_chars_node() {
    body(true);
  }

  #[kani::proof]
  #[kani::unwind(12)]
  #[kani::stub(regex::Regex::new, crate::stub_regex_new)]
  fn c20_substring_chars_transformed() {
    body(false);
  }
}
