//! C11-4 `replace_regex_total`: a rule file that loaded successfully never panics while
//! scanning.  `transform: {T: {replace: {source: $A, replace: <regex>, by: ..}}}` -- the
//! regex is user text; `Regex::new` may reject it (ST4: the stub always does).  If the
//! config is accepted, running it on a matching node must not panic.
use crate::c05_rel::kind_rule;
use crate::c12_vars::{candidate_tree, pattern_tree};
use crate::common::*;
use ast_grep_config::verif_hooks::transformation::replace;
use ast_grep_config::verif_hooks::{PatternStyle, SMap};
use ast_grep_config::{DeserializeEnv, SerializableRule, SerializableRuleCore};
use ast_grep_core::matcher::MatcherExt;

pub fn replace_rule(source: &str, regex: &str) -> SerializableRuleCore {
  let rule = SerializableRule {
    pattern: Some(PatternStyle::Str("$A$B".to_string())).into(),
    ..Default::default()
  };
  let mut tr = SMap::new();
  tr.insert("T".to_string(), replace(source, regex, "z"));
  SerializableRuleCore {
    rule,
    constraints: None,
    utils: None,
    transform: Some(tr),
    fix: None,
  }
}

/// load the rule; if accepted, run it on `f(p, qr)`
pub fn load_and_scan(source: &str, regex: &str) -> bool {
  mock_ts::reset_queue();
  let (pt, _) = pattern_tree();
  mock_ts::push_tree(pt);
  let core = match replace_rule(source, regex).get_matcher(DeserializeEnv::new(HL('$'))) {
    Ok(c) => c,
    Err(_) => return false,
  };
  let (ct, src) = candidate_tree();
  let g = mk_grep(src, ct);
  let nm = core.match_node(g.root());
  let matched = nm.is_some();
  std::mem::forget(nm);
  std::mem::forget(core);
  std::mem::forget(g);
  matched
}

#[cfg(test)]
mod tests {
  use super::*;
  #[test]
  fn valid_regex_runs() {
    assert!(load_and_scan("$A", "p"));
  }
}

#[cfg(kani)]
mod proofs {
  use super::*;

  /// with `Regex::new` failing (ST4), an accepted config must not reach a panic
  #[kani::proof]
  #[kani::unwind(10)]
  #[kani::stub(regex::Regex::new, crate::stub_regex_new)]
  fn c11_replace_regex_total() {
    let accepted_and_matched = load_and_scan("$A", "(");
    kani::cover!(!accepted_and_matched);
  }
}
