//! C05 `range_position`: the real `RangeMatcher::match_node_with_env` (rule key `range`):
//! "matches the node whose start and end are exactly the given 0-based line / *character*
//! column positions".
//!
//! Shape: a one-node tree over the 9-byte text `x0 é x1 😀 x2` (é 2 bytes, 😀 4 bytes, every
//! x_i symbolic in {a, \n}); symbolic node range on character boundaries; symbolic requested
//! positions.
use crate::common::*;
use ast_grep_config::verif_hooks::range::range_matcher_from_parts;
use ast_grep_core::meta_var::MetaVarEnv;
use ast_grep_core::Matcher;
use std::borrow::Cow;

/// (line, character column) of byte offset `off`
pub fn spec_pos(b: &[u8], off: usize) -> (usize, usize) {
  let mut line = 0;
  let mut col = 0;
  let mut i = 0;
  while i < off {
    let c = b[i];
    let w = if c < 0x80 { 1 } else if c >= 0xF0 { 4 } else if c >= 0xE0 { 3 } else { 2 };
    if c == b'\n' {
      line += 1;
      col = 0;
    } else {
      col += 1;
    }
    i += w;
  }
  (line, col)
}

pub fn real_matches(text: &[u8], s: usize, e: usize, start: (usize, usize), end: (usize, usize)) -> bool {
  let src = unsafe { std::str::from_utf8_unchecked(text) };
  let g = mk_grep(src, single_node(text, s as u32, e as u32));
  let m = range_matcher_from_parts::<HL>(start, end);
  let env = MetaVarEnv::new();
  let mut cow = Cow::Borrowed(&env);
  let r = m.match_node_with_env(g.root(), &mut cow).is_some();
  std::mem::forget(cow);
  std::mem::forget(env);
  std::mem::forget(m);
  std::mem::forget(g);
  r
}

#[cfg(test)]
mod tests {
  use super::*;
  #[test]
  fn vectors() {
    let t = "a\né😀b".as_bytes();
    // node = "😀" : bytes 4..8, line 1, chars 1..2
    assert!(real_matches(t, 4, 8, (1, 1), (1, 2)));
    assert!(!real_matches(t, 4, 8, (1, 2), (1, 2)));
    assert!(!real_matches(t, 4, 8, (1, 1), (1, 6)));
    assert_eq!(spec_pos(t, 4), (1, 1));
    assert_eq!(spec_pos(t, 8), (1, 2));
  }
}

#[cfg(kani)]
mod proofs {
  use super::*;

  #[kani::proof]
  #[kani::unwind(11)]
  #[kani::stub(regex::Regex::new, crate::stub_regex_new)]
  fn c05k_range_position_3ch() {
    // concrete byte layout (a heap `String` of symbolic *length* exhausts the back end,
    // DESIGN 3): x0 é x1 😀 x2 with every x_i symbolic in {a, \n}
    let mut buf = [b'a', 0xC3, 0xA9, b'a', 0xF0, 0x9F, 0x98, 0x80, b'a'];
    let len = 9;
    if kani::any() {
      buf[0] = b'\n';
    }
    if kani::any() {
      buf[3] = b'\n';
    }
    if kani::any() {
      buf[8] = b'\n';
    }
    let s: usize = kani::any();
    let e: usize = kani::any();
    kani::assume(s <= e && e <= len && is_boundary(&buf, len, s) && is_boundary(&buf, len, e));
    let sl: usize = kani::any();
    let sc: usize = kani::any();
    let el: usize = kani::any();
    let ec: usize = kani::any();
    kani::assume(sl <= 3 && sc <= 5 && el <= 3 && ec <= 5);
    let want = spec_pos(&buf[..len], s) == (sl, sc) && spec_pos(&buf[..len], e) == (el, ec);
    let got = real_matches(&buf[..len], s, e, (sl, sc), (el, ec));
    kani::cover!(want && sl != el);
    kani::cover!(want && sc > 0 && s > sc);
    kani::cover!(!want && spec_pos(&buf[..len], s).0 == sl && spec_pos(&buf[..len], e).0 == el);
    assert!(got == want, "range: node start/end == requested (line, character column)");
  }
}
