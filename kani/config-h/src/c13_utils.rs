//! C12-5 / C11-7 / C13-1,2: utility-rule registration (`DeserializeEnv::with_utils`,
//! `TopologicalSort`, `RuleRegistration::insert_local`, `Rule::check_cyclic`) on every
//! dependency graph of 3 utilities, for **every iteration order of the `utils` map**
//! (hook H1: the map's insertion slot is `kani::any()`).
//!
//! Each utility i is one of
//!   0  kind: number_                       (leaf)
//!   1  matches: U[x]
//!   2  not: {matches: U[x]}
//!   3  all: [{matches: U[x]}]
//!   4  {matches: U[x], not: {matches: U[y]}}      (two keys of one rule object)
//!   5  {kind: number_, any: [{matches: U[x]}, {kind: ident__}]}
//! with x, y symbolic.  All of these evaluate the referenced utility **on the same node**,
//! so a cycle among them means unbounded recursion at match time.
//! Decides: accepted  <=>  the same-node dependency graph is acyclic; and the verdict (and
//! for accepted graphs each utility's `potential_kinds`) does not depend on map order.
use crate::c05_rel::kind_rule;
use crate::common::*;
use ast_grep_config::verif_hooks::SMap;
use ast_grep_config::{DeserializeEnv, SerializableRule};
use ast_grep_core::matcher::Matcher;

pub const NAMES: [&str; 3] = ["u0", "u1", "u2"];

#[derive(Clone, Copy, Debug)]
pub struct U {
  pub form: u8,
  pub x: usize,
  pub y: usize,
}

fn matches_rule(i: usize) -> SerializableRule {
  SerializableRule {
    matches: Some(NAMES[i].to_string()).into(),
    ..Default::default()
  }
}

pub fn util_rule(u: &U) -> SerializableRule {
  match u.form {
    0 => kind_rule("number_"),
    1 => matches_rule(u.x),
    2 => SerializableRule {
      not: Some(Box::new(matches_rule(u.x))).into(),
      ..Default::default()
    },
    3 => SerializableRule {
      all: Some(vec![matches_rule(u.x)]).into(),
      ..Default::default()
    },
    4 => SerializableRule {
      matches: Some(NAMES[u.x].to_string()).into(),
      not: Some(Box::new(matches_rule(u.y))).into(),
      ..Default::default()
    },
    _ => SerializableRule {
      kind: Some("number_".to_string()).into(),
      any: Some(vec![matches_rule(u.x), kind_rule("ident__")]).into(),
      ..Default::default()
    },
  }
}

/// edges of the same-node dependency graph
pub fn deps(u: &U) -> (Option<usize>, Option<usize>) {
  match u.form {
    0 => (None, None),
    4 => (Some(u.x), Some(u.y)),
    _ => (Some(u.x), None),
  }
}

pub fn cyclic(us: &[U; 3]) -> bool {
  // reach[i][j]: i requires j (transitively)
  let mut reach = [[false; 3]; 3];
  let mut i = 0;
  while i < 3 {
    let (a, b) = deps(&us[i]);
    if let Some(a) = a {
      reach[i][a] = true;
    }
    if let Some(b) = b {
      reach[i][b] = true;
    }
    i += 1;
  }
  let mut k = 0;
  while k < 3 {
    let mut i = 0;
    while i < 3 {
      let mut j = 0;
      while j < 3 {
        if reach[i][k] && reach[k][j] {
          reach[i][j] = true;
        }
        j += 1;
      }
      i += 1;
    }
    k += 1;
  }
  reach[0][0] || reach[1][1] || reach[2][2]
}

/// register the three utilities (insertion order a, b, c) and report acceptance
pub fn register(us: &[U; 3], order: [usize; 3]) -> bool {
  let mut map = SMap::new();
  let mut i = 0;
  while i < 3 {
    let k = order[i];
    map.insert(NAMES[k].to_string(), util_rule(&us[k]));
    i += 1;
  }
  let r = DeserializeEnv::new(HL('$')).with_utils(&map);
  let ok = r.is_ok();
  std::mem::forget(r);
  std::mem::forget(map);
  ok
}

#[cfg(test)]
mod tests {
  use super::*;
  #[test]
  fn vectors() {
    let leaf = U { form: 0, x: 0, y: 0 };
    let chain = [U { form: 1, x: 1, y: 0 }, U { form: 3, x: 2, y: 0 }, leaf];
    assert!(!cyclic(&chain));
    assert!(register(&chain, [0, 1, 2]) && register(&chain, [2, 0, 1]));
    let cyc = [U { form: 1, x: 1, y: 0 }, U { form: 2, x: 0, y: 0 }, leaf];
    assert!(cyclic(&cyc));
    assert!(!register(&cyc, [0, 1, 2]) && !register(&cyc, [1, 2, 0]));
    // back edge carried by a sibling key of `matches`
    let sib = [U { form: 4, x: 2, y: 1 }, U { form: 1, x: 0, y: 0 }, leaf];
    assert!(cyclic(&sib));
    assert!(!register(&sib, [0, 1, 2]));
    let selfref = [U { form: 5, x: 0, y: 0 }, leaf, leaf];
    assert!(cyclic(&selfref));
    assert!(!register(&selfref, [0, 1, 2]));
  }
}

#[cfg(kani)]
mod proofs {
  use super::*;

  fn any_u(forms: &[u8]) -> U {
    let f: usize = kani::any();
    kani::assume(f < forms.len());
    let x: usize = kani::any();
    let y: usize = kani::any();
    kani::assume(x < 3 && y < 3);
    U { form: forms[f], x, y }
  }

  /// the iteration order of the map is chosen by the solver (hook H1)
  fn symbolic_order() {
    unsafe {
      let mut i = 0;
      while i < 8 {
        ast_grep_core::verif_hooks::ORDER_SLOTS[i] = kani::any();
        i += 1;
      }
      ast_grep_core::verif_hooks::ORDER_NEXT = 0;
      ast_grep_core::verif_hooks::ORDER_ENABLED = true;
    }
  }

  fn cycle_guard(forms: &[u8]) {
    let us = [any_u(forms), any_u(forms), any_u(forms)];
    symbolic_order();
    let accepted = register(&us, [0, 1, 2]);
    let want = !cyclic(&us);
    kani::cover!(accepted && us[0].form != 0 && us[1].form != 0);
    kani::cover!(!accepted && us[0].x != 0);
    assert!(accepted == want, "a utility cycle was accepted, or an acyclic graph rejected, for some map order");
  }

  #[kani::proof]
  #[kani::unwind(10)]
  #[kani::stub(regex::Regex::new, crate::stub_regex_new)]
  fn c12_util_cycle_guard_matches_not_all() {
    cycle_guard(&[0, 1, 2, 3]);
  }

  #[kani::proof]
  #[kani::unwind(10)]
  #[kani::stub(regex::Regex::new, crate::stub_regex_new)]
  fn c12_util_cycle_guard_sibling_keys() {
    cycle_guard(&[0, 1, 4, 5]);
  }
}

#[cfg(test)]
mod explore {
  use super::*;
  use ast_grep_config::verif_hooks::{NthChildSimple, Relation, SerializableNthChild, SerializableStopBy};
  #[test]
  #[ignore]
  fn nth_child_of_rule_cycle() {
    // u0 = nthChild {position 1, ofRule: matches u0}
    let mut map = SMap::new();
    let r = SerializableRule {
      nth_child: Some(SerializableNthChild::Complex {
        position: NthChildSimple::Numeric(1),
        of_rule: Some(Box::new(matches_rule(0))),
        reverse: false,
      })
      .into(),
      ..Default::default()
    };
    map.insert("u0".to_string(), r);
    let res = DeserializeEnv::new(HL('$')).with_utils(&map);
    println!("nthChild.ofRule self cycle accepted: {}", res.is_ok());
    // u0 = has(matches u1), u1 = inside(matches u0)
    let mut map = SMap::new();
    let rel = |i: usize| Relation { rule: matches_rule(i), stop_by: SerializableStopBy::Neighbor, field: None };
    map.insert("u0".to_string(), SerializableRule { has: Some(Box::new(rel(1))).into(), ..Default::default() });
    map.insert("u1".to_string(), SerializableRule { inside: Some(Box::new(rel(0))).into(), ..Default::default() });
    let res = DeserializeEnv::new(HL('$')).with_utils(&map);
    println!("has/inside mutual cycle accepted: {}", res.is_ok());
  }
}
