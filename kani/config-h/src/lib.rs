//! Kani harnesses over the real `ast-grep-config` + `ast-grep-core` (path dependencies on
//! /repo) with the tree-sitter facade replaced by `mock-ts`.  See /verif/DESIGN.md.
#![allow(dead_code, unused_imports, unconditional_panic, clippy::all)]

pub use core_h::common;

/// ST4: the regex crate is never executed (Kani 0.68 even fails to *compile* its
/// `regex_automata::meta::strategy::new`: internal compiler error in
/// `codegen_get_discriminant`).  Every harness that can reach `Regex::new` stubs it with
/// this function (`-Z stubbing`): compilation of a regex may fail -- which is exactly what
/// `Regex::new` is allowed to do for a user-supplied string -- and it never succeeds, so no
/// claim is ever made about what a regex matches.
pub fn stub_regex_new(_re: &str) -> Result<regex::Regex, regex::Error> {
  Err(regex::Error::Syntax(String::new()))
}

#[cfg(any(kani, test))]
mod anb;
#[cfg(any(kani, test))]
mod small_kernels;
#[cfg(any(kani, test))]
pub mod c05_rel;
#[cfg(any(kani, test))]
pub mod c14_scan;
#[cfg(any(kani, test))]
mod c14_table;
#[cfg(any(kani, test))]
mod c05_nth;
#[cfg(any(kani, test))]
mod c05_range;
#[cfg(any(kani, test))]
mod c05_ops;
#[cfg(any(kani, test))]
pub mod c12_vars;
#[cfg(any(kani, test))]
mod c01_combined;
#[cfg(any(kani, test))]
mod c11_transform;
#[cfg(any(kani, test))]
mod c06_rewrite;
#[cfg(any(kani, test))]
mod c13_utils;
#[cfg(any(kani, test))]
mod c12_fix_forms;
#[cfg(any(kani, test))]
mod c20_substring;
