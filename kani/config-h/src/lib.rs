//! Kani harnesses over the real `ast-grep-config` + `ast-grep-core` (path dependencies on
//! /repo) with the tree-sitter facade replaced by `mock-ts`.  See /verif/DESIGN.md.
#![allow(dead_code, unused_imports, clippy::all)]

pub use core_h::common;

#[cfg(any(kani, test))]
mod anb;
#[cfg(any(kani, test))]
mod small_kernels;
