//! C05 `logic`: `all` / `any` / `not` over `kind` tests are conjunction / disjunction /
//! negation on the same node -- the real `Rule::match_node_with_env` dispatch with the real
//! `ops::All` / `ops::Any` / `ops::Not` (rule values built from parts), on a one-node tree.
use crate::common::*;
use ast_grep_config::Rule;
use ast_grep_core::matcher::KindMatcher;
use ast_grep_core::meta_var::MetaVarEnv;
use ast_grep_core::ops::{All, Any, Not};
use ast_grep_core::Matcher;
use std::borrow::Cow;

fn kind(k: u16) -> Rule<HL> {
  Rule::Kind(KindMatcher::from_id(k))
}

/// form 0: all[kind k1, not kind k2]   form 1: any[kind k1, kind k2]
/// form 2: not any[kind k1, kind k2]   form 3: all[any[kind k1, kind k2], not kind k3]
pub fn build(form: u8, k1: u16, k2: u16, k3: u16) -> Rule<HL> {
  match form {
    0 => Rule::All(All::new([kind(k1), Rule::Not(Box::new(Not::new(kind(k2))))])),
    1 => Rule::Any(Any::new([kind(k1), kind(k2)])),
    2 => Rule::Not(Box::new(Not::new(Rule::Any(Any::new([kind(k1), kind(k2)]))))),
    _ => Rule::All(All::new([Rule::Any(Any::new([kind(k1), kind(k2)])), Rule::Not(Box::new(Not::new(kind(k3))))])),
  }
}

pub fn spec(form: u8, k1: u16, k2: u16, k3: u16, kd: u16) -> bool {
  match form {
    0 => kd == k1 && kd != k2,
    1 => kd == k1 || kd == k2,
    2 => !(kd == k1 || kd == k2),
    _ => (kd == k1 || kd == k2) && kd != k3,
  }
}

pub fn real(form: u8, k1: u16, k2: u16, k3: u16, kd: u16) -> bool {
  let mut d = single_node(b"x", 0, 1);
  d.nodes[0].kind = kd;
  let g = mk_grep("x", d);
  let rule = build(form, k1, k2, k3);
  let env = MetaVarEnv::new();
  let mut cow = Cow::Borrowed(&env);
  let r = rule.match_node_with_env(g.root(), &mut cow).is_some();
  std::mem::forget(cow);
  std::mem::forget(env);
  std::mem::forget(rule);
  std::mem::forget(g);
  r
}

#[cfg(test)]
mod tests {
  use super::*;
  #[test]
  fn table() {
    for form in 0..4u8 {
      for k1 in 1..4u16 {
        for k2 in 1..4u16 {
          for k3 in 1..4u16 {
            for kd in 1..4u16 {
              assert_eq!(real(form, k1, k2, k3, kd), spec(form, k1, k2, k3, kd));
            }
          }
        }
      }
    }
  }
}

#[cfg(kani)]
mod proofs {
  use super::*;

  fn logic(form: u8) {
    let k1: u16 = kani::any();
    let k2: u16 = kani::any();
    let k3: u16 = kani::any();
    let kd: u16 = kani::any();
    kani::assume(k1 >= 1 && k1 <= 8 && k2 >= 1 && k2 <= 8 && k3 >= 1 && k3 <= 8 && kd >= 1 && kd <= 8);
    let want = spec(form, k1, k2, k3, kd);
    let got = real(form, k1, k2, k3, kd);
    kani::cover!(want);
    kani::cover!(!want);
    assert!(got == want, "all/any/not == conjunction/disjunction/negation on the same node");
  }

  macro_rules! logic_harness {
    ($name:ident, $form:expr) => {
      #[kani::proof]
      #[kani::unwind(10)]
      #[kani::stub(regex::Regex::new, crate::stub_regex_new)]
      fn $name() {
        logic($form);
      }
    };
  }
  logic_harness!(c05k_logic_all_not, 0);
  logic_harness!(c05k_logic_any, 1);
  logic_harness!(c05k_logic_not_any, 2);
  logic_harness!(c05k_logic_all_any_not, 3);

  /// C01 mechanism 1 for composite rule objects: `Rule::potential_kinds` over-approximates
  /// the kinds the rule accepts (reference `spec`), and is exactly the documented set
  fn rule_kinds(form: u8) {
    let k1: u16 = kani::any();
    let k2: u16 = kani::any();
    let k3: u16 = kani::any();
    let kd: u16 = kani::any();
    kani::assume(k1 >= 1 && k1 <= 8 && k2 >= 1 && k2 <= 8 && k3 >= 1 && k3 <= 8 && kd >= 1 && kd <= 8);
    let rule = build(form, k1, k2, k3);
    let set = rule.potential_kinds();
    let accepts = spec(form, k1, k2, k3, kd);
    let gate_open = match &set {
      None => true,
      Some(s) => s.contains(kd as usize),
    };
    kani::cover!(accepts && set.is_some());
    kani::cover!(!gate_open);
    assert!(!accepts || gate_open, "kind gate drops a node the rule accepts");
    // exact sets: all[..] = intersection skipping `not`; any[..] = union; not = no set
    match form {
      0 => assert!(matches!(&set, Some(s) if s.contains(k1 as usize) && s.len() == 1)),
      1 | 3 => assert!(matches!(&set, Some(s) if s.contains(k1 as usize) && s.contains(k2 as usize) && s.len() == if k1 == k2 { 1 } else { 2 })),
      _ => assert!(set.is_none()),
    }
    std::mem::forget(set);
    std::mem::forget(rule);
  }

  macro_rules! kinds_harness {
    ($name:ident, $form:expr) => {
      #[kani::proof]
      #[kani::unwind(10)]
      #[kani::stub(regex::Regex::new, crate::stub_regex_new)]
      fn $name() {
        rule_kinds($form);
      }
    };
  }
  kinds_harness!(c01k_rule_kinds_all_not, 0);
  kinds_harness!(c01k_rule_kinds_any, 1);
  kinds_harness!(c01k_rule_kinds_not_any, 2);
  kinds_harness!(c01k_rule_kinds_all_any_not, 3);
}
