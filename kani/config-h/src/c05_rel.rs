//! C05 (relational rules): the real `Inside/Has/Precedes/Follows` + `StopBy::find` +
//! `inclusive_until` of `ast-grep-config`, built by the real `deserialize_rule` from
//! programmatic `SerializableRule`s, against an independent evaluator over the arena, on
//! every tree of <= n nodes and every target node.
use crate::common::*;
use ast_grep_config::verif_hooks::{Relation, SerializableStopBy};
use ast_grep_config::{DeserializeEnv, Rule, SerializableRule};
use ast_grep_core::matcher::MatcherExt;
use mock_ts::{K_COMMENT, K_IDENT, K_NUMBER};

pub fn kind_rule(name: &str) -> SerializableRule {
  SerializableRule {
    kind: Some(name.to_string()).into(),
    ..Default::default()
  }
}

#[derive(Clone, Copy, PartialEq, Eq, Debug)]
pub enum Rel {
  Has,
  Inside,
  Follows,
  Precedes,
}
#[derive(Clone, Copy, PartialEq, Eq, Debug)]
pub enum Stop {
  Neighbor,
  End,
  /// until (inclusive) a `comment` node
  Rule,
}

/// `<rel>: { kind: number_, stopBy: <stop>, field: fielda? }`
pub fn build(rel: Rel, stop: Stop, field: bool) -> Rule<HL> {
  let relation = Relation {
    rule: kind_rule("number_"),
    stop_by: match stop {
      Stop::Neighbor => SerializableStopBy::Neighbor,
      Stop::End => SerializableStopBy::End,
      Stop::Rule => SerializableStopBy::Rule(kind_rule("comment")),
    },
    field: if field { Some("fielda".to_string()) } else { None },
  };
  let mut r = SerializableRule::default();
  let b = Some(Box::new(relation));
  match rel {
    Rel::Has => r.has = b.into(),
    Rel::Inside => r.inside = b.into(),
    Rel::Follows => r.follows = b.into(),
    Rel::Precedes => r.precedes = b.into(),
  }
  DeserializeEnv::new(HL('$')).deserialize_rule(r).expect("valid rule")
}

/// the same rule value built from parts (hook H2 constructors): no serializable
/// representation, no `deserialize_rule` -- an order of magnitude cheaper to execute
/// symbolically; what is exercised is exactly the matching code
pub fn build_direct(rel: Rel, stop: Stop, field: bool) -> Rule<HL> {
  use ast_grep_config::verif_hooks::{relational, StopBy};
  use ast_grep_core::matcher::KindMatcher;
  let goal = Rule::Kind(KindMatcher::from_id(K_NUMBER));
  let stop_by = match stop {
    Stop::Neighbor => StopBy::Neighbor,
    Stop::End => StopBy::End,
    Stop::Rule => StopBy::Rule(Rule::Kind(KindMatcher::from_id(K_COMMENT))),
  };
  let f = if field { Some(1u16) } else { None };
  match rel {
    Rel::Has => relational::has(goal, stop_by, f),
    Rel::Inside => relational::inside(goal, stop_by, f),
    Rel::Follows => relational::follows(goal, stop_by),
    Rel::Precedes => relational::precedes(goal, stop_by),
  }
}

/// reference semantics on the arena (parent vector + labels only)
pub fn eval(rel: Rel, stop: Stop, field: bool, t: &TreeData, parent: &[u8; MAXN], n: usize, x: usize) -> bool {
  let goal = |i: usize| t.nodes[i].kind == K_NUMBER;
  let stopm = |i: usize| t.nodes[i].kind == K_COMMENT;
  // first child of p carrying fielda (field id 1), if any
  let field_child = |p: usize| -> Option<usize> {
    let mut j = 1;
    while j < MAXN {
      if j < n && parent[j] as usize == p && t.nodes[j].field == 1 {
        return Some(j);
      }
      j += 1;
    }
    None
  };
  match rel {
    Rel::Inside => {
      // walk up: a1 = parent(x), a2 = parent(a1) ...
      let mut below = x;
      let mut steps = 0;
      while below != 0 && steps < MAXN {
        let a = parent[below] as usize;
        let link_ok = !field || field_child(a) == Some(below);
        if link_ok && goal(a) {
          return true;
        }
        match stop {
          Stop::Neighbor => return false,
          Stop::End => {}
          Stop::Rule => {
            if stopm(a) {
              return false;
            }
          }
        }
        below = a;
        steps += 1;
      }
      false
    }
    Rel::Has => {
      // descendants d of x reachable under the stop discipline; with `field` the first
      // step must be x's field child
      let mut d = x + 1;
      while d < MAXN {
        if d < n && goal(d) {
          // path x = p0 -> p1 -> ... -> d
          let mut chain_ok = false;
          let mut blocked = false;
          let mut depth = 0;
          let mut c = d;
          let mut steps = 0;
          while c != 0 && steps < MAXN {
            let p = parent[c] as usize;
            depth += 1;
            if p == x {
              chain_ok = !field || field_child(x) == Some(c);
              break;
            }
            // p is a strict intermediate node between x and d
            if stop == Stop::Rule && stopm(p) {
              blocked = true;
            }
            c = p;
            steps += 1;
          }
          let depth_ok = match stop {
            Stop::Neighbor => depth == 1,
            _ => true,
          };
          if chain_ok && !blocked && depth_ok {
            return true;
          }
        }
        d += 1;
      }
      false
    }
    Rel::Follows | Rel::Precedes => {
      if x == 0 {
        return false;
      }
      let p = parent[x];
      // siblings in document order = ascending index with the same parent
      let mut found = false;
      let mut closed = false; // stop discipline already ended the scan
      let mut k = 1;
      while k < MAXN {
        // iterate outward from x: distance k
        let cand = if rel == Rel::Precedes { nth_sibling_after(parent, n, x, p, k) } else { nth_sibling_before(parent, x, p, k) };
        if let Some(c) = cand {
          if !closed {
            if goal(c) {
              found = true;
              closed = true;
            } else {
              match stop {
                Stop::Neighbor => closed = true,
                Stop::End => {}
                Stop::Rule => {
                  if stopm(c) {
                    closed = true;
                  }
                }
              }
            }
          }
        }
        k += 1;
      }
      found
    }
  }
}

fn nth_sibling_after(parent: &[u8; MAXN], n: usize, x: usize, p: u8, k: usize) -> Option<usize> {
  let mut seen = 0;
  let mut j = x + 1;
  while j < MAXN {
    if j < n && parent[j] == p {
      seen += 1;
      if seen == k {
        return Some(j);
      }
    }
    j += 1;
  }
  None
}
fn nth_sibling_before(parent: &[u8; MAXN], x: usize, p: u8, k: usize) -> Option<usize> {
  let mut seen = 0;
  let mut j = x;
  while j > 1 {
    j -= 1;
    if parent[j] == p {
      seen += 1;
      if seen == k {
        return Some(j);
      }
    }
  }
  None
}

#[cfg(test)]
mod tests {
  use super::*;
  #[test]
  fn has_until_inclusive() {
    // 0:call(1:ident(2:comment(3:number)))  -- number is below a comment: blocked
    let mut parent = [0u8; MAXN];
    parent[2] = 1;
    parent[3] = 2;
    let mut d = TreeData::from_parents(4, &parent);
    d.nodes[0].kind = 3;
    d.nodes[1].kind = K_IDENT;
    d.nodes[2].kind = K_COMMENT;
    d.nodes[3].kind = K_NUMBER;
    let total = d.layout(&[1; MAXN], &[0; MAXN]) as usize;
    d.fix_named_counts();
    let g = mk_grep(&SRC_X[..total], d.clone());
    for (stop, want) in [(Stop::Neighbor, false), (Stop::End, true), (Stop::Rule, false)] {
      let r = build(Rel::Has, stop, false);
      assert_eq!(r.match_node(g.root()).is_some(), want, "{stop:?}");
      let r = build_direct(Rel::Has, stop, false);
      assert_eq!(r.match_node(g.root()).is_some(), want, "{stop:?}");
      assert_eq!(eval(Rel::Has, stop, false, &d, &parent, 4, 0), want);
    }
    let r = build(Rel::Inside, Stop::Rule, false);
    assert!(r.match_node(node_at(&g, 3)).is_none());
    assert!(!eval(Rel::Inside, Stop::Rule, false, &d, &parent, 4, 3));
  }
}

#[cfg(kani)]
mod proofs {
  use super::*;

  fn rel_sem(rel: Rel, stop: Stop, field: bool, nmax: usize) {
    rel_sem_with(rel, stop, field, nmax, false)
  }
  fn rel_sem_direct(rel: Rel, stop: Stop, field: bool, nmax: usize) {
    rel_sem_with(rel, stop, field, nmax, true)
  }
  fn rel_sem_with(rel: Rel, stop: Stop, field: bool, nmax: usize, direct: bool) {
    let mut t = any_tree(nmax, 1);
    let mut i = 0;
    while i < MAXN {
      if i < nmax {
        let k = t.data.nodes[i].kind;
        kani::assume(k == K_IDENT || k == K_NUMBER || k == K_COMMENT);
        if field {
          let f: bool = kani::any();
          t.data.nodes[i].field = if f { 1 } else { 0 };
        }
      }
      i += 1;
    }
    if field {
      // the reference's precondition: a field labels at most one child of a node
      let mut a = 1;
      while a < MAXN {
        let mut b = a + 1;
        while b < MAXN {
          if b < t.n {
            kani::assume(!(t.parent[a] == t.parent[b] && t.data.nodes[a].field == 1 && t.data.nodes[b].field == 1));
          }
          b += 1;
        }
        a += 1;
      }
    }
    let x: usize = kani::any();
    kani::assume(x < t.n);
    let g = mk_grep(&SRC_X[..t.total], t.data.clone());
    let rule = if direct { build_direct(rel, stop, field) } else { build(rel, stop, field) };
    let got = rule.match_node(node_at(&g, x)).is_some();
    let want = eval(rel, stop, field, &t.data, &t.parent, t.n, x);
    kani::cover!(want && t.n == nmax);
    kani::cover!(!want && t.n == nmax && x > 0);
    assert!(got == want);
    std::mem::forget(rule);
    std::mem::forget(g);
  }

  macro_rules! rel_harness {
    ($name:ident, $rel:expr, $stop:expr, $field:expr, $n:expr) => {
      #[kani::proof]
      #[kani::unwind(10)]
      #[kani::stub(regex::Regex::new, crate::stub_regex_new)]
      fn $name() {
        rel_sem($rel, $stop, $field, $n);
      }
    };
  }
  /// by-value variant: the matcher struct lives on the harness stack (not boxed into a
  /// `Rule`), so the symbolic engine can constant-fold its inner rule's variant.
  /// Shapes (all 9 pre-order shapes of <= 4 nodes) and the target node are enumerated by
  /// concrete loops -- a symbolic shape makes every navigation step a symbolic array read
  /// and exhausted 30 GB in array post-processing; kinds and field labels of every node
  /// (what decides goal / stop / field) are symbolic.
  fn rel_sem_struct(rel: Rel, stop: Stop, field: bool, nmax: usize) {
    use ast_grep_config::verif_hooks::{relational, StopBy};
    use ast_grep_core::matcher::KindMatcher;
    let mut kinds = [K_IDENT; MAXN];
    let mut fields = [0u16; MAXN];
    let mut i = 0;
    while i < MAXN {
      if i < nmax {
        let k: u16 = kani::any();
        kani::assume(k == K_IDENT || k == K_NUMBER || k == K_COMMENT);
        kinds[i] = k;
        if field && kani::any() {
          fields[i] = 1;
        }
      }
      i += 1;
    }
    let (pv, ns, cnt) = all_shapes(nmax);
    let mut sidx = 0;
    while sidx < cnt {
      let n = ns[sidx];
      let parent = pv[sidx];
      let mut d = TreeData::from_parents(n, &parent);
      let mut ok_fields = true;
      let mut i = 0;
      while i < MAXN {
        if i < n {
          d.nodes[i].kind = kinds[i];
          d.nodes[i].field = fields[i];
        }
        i += 1;
      }
      // the reference's precondition: a field labels at most one child of a node
      let mut a = 1;
      while a < n {
        let mut b = a + 1;
        while b < n {
          if parent[a] == parent[b] && fields[a] == 1 && fields[b] == 1 {
            ok_fields = false;
          }
          b += 1;
        }
        a += 1;
      }
      let total = d.layout(&[1; MAXN], &[0; MAXN]) as usize;
      d.fix_named_counts();
      if ok_fields {
        let g = mk_grep(&SRC_X[..total], d.clone());
        let mut x = 0;
        while x < n {
          let goal = Rule::Kind(KindMatcher::from_id(K_NUMBER));
          let stop_by = match stop {
            Stop::Neighbor => StopBy::Neighbor,
            Stop::End => StopBy::End,
            Stop::Rule => StopBy::Rule(Rule::Kind(KindMatcher::from_id(K_COMMENT))),
          };
          let f = if field { Some(1u16) } else { None };
          let node = node_at(&g, x);
          let got = match rel {
            Rel::Has => {
              let m = relational::has_struct(goal, stop_by, f);
              let r = m.match_node(node).is_some();
              std::mem::forget(m);
              r
            }
            Rel::Inside => {
              let m = relational::inside_struct(goal, stop_by, f);
              let r = m.match_node(node).is_some();
              std::mem::forget(m);
              r
            }
            Rel::Follows => {
              let m = relational::follows_struct(goal, stop_by);
              let r = m.match_node(node).is_some();
              std::mem::forget(m);
              r
            }
            Rel::Precedes => {
              let m = relational::precedes_struct(goal, stop_by);
              let r = m.match_node(node).is_some();
              std::mem::forget(m);
              r
            }
          };
          let want = eval(rel, stop, field, &d, &parent, n, x);
          if n == nmax && x == n - 1 {
            kani::cover!(want);
            kani::cover!(!want);
          }
          assert!(got == want);
          x += 1;
        }
        std::mem::forget(g);
      }
      sidx += 1;
    }
  }

  /// Kernel variant: ONE call of the real relational matcher (struct built from parts, goal
  /// `kind: number`, stop rule `kind: comment`, field id 1) on a symbolic tree ANY(nmax) at a
  /// symbolic node, against the reference `eval`.
  fn rel_kernel(rel: Rel, stop: Stop, field: bool, nmax: usize) {
    use ast_grep_config::verif_hooks::{relational, StopBy};
    use ast_grep_core::matcher::KindMatcher;
    use ast_grep_core::Matcher;
    let mut t = any_tree(nmax, 1);
    let n = t.n;
    let mut i = 0;
    while i < MAXN {
      if i < nmax {
        let k: u16 = kani::any();
        kani::assume(k == K_IDENT || k == K_NUMBER || k == K_COMMENT);
        t.data.nodes[i].kind = k;
        t.data.nodes[i].named = true;
        t.data.nodes[i].field = if field && kani::any() { 1 } else { 0 };
      }
      i += 1;
    }
    t.data.fix_named_counts();
    // the reference's precondition: a field labels at most one child of a node
    let mut a = 1;
    while a < MAXN {
      let mut b = a + 1;
      while b < MAXN {
        if a < n && b < n {
          kani::assume(!(t.parent[a] == t.parent[b] && t.data.nodes[a].field == 1 && t.data.nodes[b].field == 1));
        }
        b += 1;
      }
      a += 1;
    }
    let x: usize = kani::any();
    kani::assume(x < n);
    let want = eval(rel, stop, field, &t.data, &t.parent, n, x);
    let g = mk_grep(SRC_X, t.data.clone());
    let goal = Rule::Kind(KindMatcher::from_id(K_NUMBER));
    let stop_by = match stop {
      Stop::Neighbor => StopBy::Neighbor,
      Stop::End => StopBy::End,
      Stop::Rule => StopBy::Rule(Rule::Kind(KindMatcher::from_id(K_COMMENT))),
    };
    let f = if field { Some(1u16) } else { None };
    let node = node_at(&g, x);
    let env = ast_grep_core::meta_var::MetaVarEnv::new();
    let mut cow = std::borrow::Cow::Borrowed(&env);
    let got = match rel {
      Rel::Has => {
        let m = relational::has_struct(goal, stop_by, f);
        let r = m.match_node_with_env(node, &mut cow).is_some();
        std::mem::forget(m);
        r
      }
      Rel::Inside => {
        let m = relational::inside_struct(goal, stop_by, f);
        let r = m.match_node_with_env(node, &mut cow).is_some();
        std::mem::forget(m);
        r
      }
      Rel::Follows => {
        let m = relational::follows_struct(goal, stop_by);
        let r = m.match_node_with_env(node, &mut cow).is_some();
        std::mem::forget(m);
        r
      }
      Rel::Precedes => {
        let m = relational::precedes_struct(goal, stop_by);
        let r = m.match_node_with_env(node, &mut cow).is_some();
        std::mem::forget(m);
        r
      }
    };
    std::mem::forget(cow);
    std::mem::forget(env);
    kani::cover!(want);
    kani::cover!(!want && x > 0);
    assert!(got == want, "relational rule == reference semantics (stopBy, field)");
    std::mem::forget(g);
  }

  macro_rules! rel_k {
    ($name:ident, $rel:expr, $stop:expr, $field:expr, $n:expr) => {
      #[kani::proof]
      #[kani::unwind(10)]
      #[kani::stub(regex::Regex::new, crate::stub_regex_new)]
      fn $name() {
        rel_kernel($rel, $stop, $field, $n);
      }
    };
  }
  rel_k!(c05k_inside_neighbor_n4, Rel::Inside, Stop::Neighbor, false, 4);
  rel_k!(c05k_inside_end_n4, Rel::Inside, Stop::End, false, 4);
  rel_k!(c05k_inside_end_n5, Rel::Inside, Stop::End, false, 5);
  rel_k!(c05k_inside_field_end_n5, Rel::Inside, Stop::End, true, 5);
  rel_k!(c05k_has_end_n5, Rel::Has, Stop::End, false, 5);
  rel_k!(c05k_follows_end_n5, Rel::Follows, Stop::End, false, 5);
  rel_k!(c05k_precedes_end_n5, Rel::Precedes, Stop::End, false, 5);
  rel_k!(c05k_inside_rule_n4, Rel::Inside, Stop::Rule, false, 4);
  rel_k!(c05k_inside_field_end_n4, Rel::Inside, Stop::End, true, 4);
  rel_k!(c05k_inside_field_rule_n4, Rel::Inside, Stop::Rule, true, 4);
  rel_k!(c05k_has_neighbor_n4, Rel::Has, Stop::Neighbor, false, 4);
  rel_k!(c05k_has_end_n4, Rel::Has, Stop::End, false, 4);
  rel_k!(c05k_has_rule_n4, Rel::Has, Stop::Rule, false, 4);
  rel_k!(c05k_has_field_end_n4, Rel::Has, Stop::End, true, 4);
  rel_k!(c05k_follows_neighbor_n4, Rel::Follows, Stop::Neighbor, false, 4);
  rel_k!(c05k_follows_end_n4, Rel::Follows, Stop::End, false, 4);
  rel_k!(c05k_follows_rule_n4, Rel::Follows, Stop::Rule, false, 4);
  rel_k!(c05k_precedes_neighbor_n4, Rel::Precedes, Stop::Neighbor, false, 4);
  rel_k!(c05k_precedes_end_n4, Rel::Precedes, Stop::End, false, 4);
  rel_k!(c05k_precedes_rule_n4, Rel::Precedes, Stop::Rule, false, 4);

  macro_rules! rel_struct {
    ($name:ident, $rel:expr, $stop:expr, $field:expr, $n:expr) => {
      #[kani::proof]
      #[kani::unwind(6)]
      #[kani::stub(regex::Regex::new, crate::stub_regex_new)]
      fn $name() {
        rel_sem_struct($rel, $stop, $field, $n);
      }
    };
  }
  rel_struct!(c05s_has_rule_n4, Rel::Has, Stop::Rule, false, 4);
  rel_struct!(c05s_inside_field_end_n4, Rel::Inside, Stop::End, true, 4);
  rel_struct!(c05s_follows_end_n4, Rel::Follows, Stop::End, false, 4);
  rel_struct!(c05s_precedes_rule_n4, Rel::Precedes, Stop::Rule, false, 4);

  macro_rules! rel_direct {
    ($name:ident, $rel:expr, $stop:expr, $field:expr, $n:expr) => {
      #[kani::proof]
      #[kani::unwind(10)]
      #[kani::stub(regex::Regex::new, crate::stub_regex_new)]
      fn $name() {
        rel_sem_direct($rel, $stop, $field, $n);
      }
    };
  }
  rel_direct!(c05d_has_neighbor_n4, Rel::Has, Stop::Neighbor, false, 4);
  rel_direct!(c05d_has_end_n4, Rel::Has, Stop::End, false, 4);
  rel_direct!(c05d_has_rule_n4, Rel::Has, Stop::Rule, false, 4);
  rel_direct!(c05d_inside_neighbor_n4, Rel::Inside, Stop::Neighbor, false, 4);
  rel_direct!(c05d_inside_end_n4, Rel::Inside, Stop::End, false, 4);
  rel_direct!(c05d_inside_rule_n4, Rel::Inside, Stop::Rule, false, 4);
  rel_direct!(c05d_follows_neighbor_n4, Rel::Follows, Stop::Neighbor, false, 4);
  rel_direct!(c05d_follows_end_n4, Rel::Follows, Stop::End, false, 4);
  rel_direct!(c05d_follows_rule_n4, Rel::Follows, Stop::Rule, false, 4);
  rel_direct!(c05d_precedes_neighbor_n4, Rel::Precedes, Stop::Neighbor, false, 4);
  rel_direct!(c05d_precedes_end_n4, Rel::Precedes, Stop::End, false, 4);
  rel_direct!(c05d_precedes_rule_n4, Rel::Precedes, Stop::Rule, false, 4);
  rel_direct!(c05d_has_field_neighbor_n4, Rel::Has, Stop::Neighbor, true, 4);
  rel_direct!(c05d_has_field_end_n4, Rel::Has, Stop::End, true, 4);
  rel_direct!(c05d_has_field_rule_n4, Rel::Has, Stop::Rule, true, 4);
  rel_direct!(c05d_inside_field_neighbor_n4, Rel::Inside, Stop::Neighbor, true, 4);
  rel_direct!(c05d_inside_field_end_n4, Rel::Inside, Stop::End, true, 4);
  rel_direct!(c05d_inside_field_rule_n4, Rel::Inside, Stop::Rule, true, 4);
  rel_direct!(c05d_has_rule_n5, Rel::Has, Stop::Rule, false, 5);
  rel_direct!(c05d_inside_rule_n5, Rel::Inside, Stop::Rule, false, 5);
  rel_direct!(c05d_follows_rule_n5, Rel::Follows, Stop::Rule, false, 5);
  rel_direct!(c05d_precedes_rule_n5, Rel::Precedes, Stop::Rule, false, 5);
  rel_harness!(c05_has_neighbor_n4, Rel::Has, Stop::Neighbor, false, 4);
  rel_harness!(c05_has_end_n4, Rel::Has, Stop::End, false, 4);
  rel_harness!(c05_has_rule_n4, Rel::Has, Stop::Rule, false, 4);
  rel_harness!(c05_inside_neighbor_n4, Rel::Inside, Stop::Neighbor, false, 4);
  rel_harness!(c05_inside_end_n4, Rel::Inside, Stop::End, false, 4);
  rel_harness!(c05_inside_rule_n4, Rel::Inside, Stop::Rule, false, 4);
  rel_harness!(c05_follows_neighbor_n4, Rel::Follows, Stop::Neighbor, false, 4);
  rel_harness!(c05_follows_end_n4, Rel::Follows, Stop::End, false, 4);
  rel_harness!(c05_follows_rule_n4, Rel::Follows, Stop::Rule, false, 4);
  rel_harness!(c05_precedes_neighbor_n4, Rel::Precedes, Stop::Neighbor, false, 4);
  rel_harness!(c05_precedes_end_n4, Rel::Precedes, Stop::End, false, 4);
  rel_harness!(c05_precedes_rule_n4, Rel::Precedes, Stop::Rule, false, 4);
  rel_harness!(c05_has_field_neighbor_n4, Rel::Has, Stop::Neighbor, true, 4);
  rel_harness!(c05_has_field_end_n4, Rel::Has, Stop::End, true, 4);
  rel_harness!(c05_has_field_rule_n4, Rel::Has, Stop::Rule, true, 4);
  rel_harness!(c05_inside_field_neighbor_n4, Rel::Inside, Stop::Neighbor, true, 4);
  rel_harness!(c05_inside_field_end_n4, Rel::Inside, Stop::End, true, 4);
  rel_harness!(c05_inside_field_rule_n4, Rel::Inside, Stop::Rule, true, 4);
  rel_harness!(c05_has_rule_n5, Rel::Has, Stop::Rule, false, 5);
  rel_harness!(c05_inside_rule_n5, Rel::Inside, Stop::Rule, false, 5);
  rel_harness!(c05_follows_rule_n5, Rel::Follows, Stop::Rule, false, 5);
  rel_harness!(c05_precedes_rule_n5, Rel::Precedes, Stop::Rule, false, 5);
}
