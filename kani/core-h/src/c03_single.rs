//! C03 through the real `Pattern` entry points, for patterns that are ONE node (built with
//! the hook `pattern_from_parts`, matched with `Pattern::match_node_with_env` /
//! `Pattern::get_match_len`):
//!  * a hole marked as named (`$A`, `$_`) binds only named nodes, an any-node hole (`$$A`,
//!    `$$_`) binds any node; a capturing hole binds exactly the candidate;
//!  * the length reported for a matched token is the token's own length (never exceeds the
//!    node), and `get_match_len` accepts exactly what `match_node_with_env` accepts.
use crate::c03_align::*;
use crate::common::*;
use ast_grep_core::matcher::PatternNode;
use ast_grep_core::meta_var::{MetaVarEnv, MetaVariable};
use ast_grep_core::Matcher;
use mock_ts::K_CALL;
use std::borrow::Cow;

/// pattern = one hole; returns (matched, Some(node id bound to A) if captured)
pub fn real_hole(capture: bool, named: bool, cand: &Leaf, s: u8) -> (bool, Option<usize>, usize) {
  let mv = if capture { MetaVariable::Capture("A".to_string(), named) } else { MetaVariable::Dropped(named) };
  let p: ast_grep_core::Pattern<HL> = ast_grep_core::verif_hooks::pattern::pattern_from_parts(
    PatternNode::MetaVar { meta_var: mv },
    None,
    strictness_of(s),
  );
  let mut cands = [*cand; KMAX];
  cands[0] = *cand;
  let mut src = [b' '; KMAX];
  let d = flat_tree(&cands, 1, K_CALL, &mut src);
  let g = mk_grep(as_str(&src, 1), d);
  let c = g.root().child(0).unwrap();
  let cid = c.node_id();
  let env = MetaVarEnv::new();
  let mut cow = Cow::Borrowed(&env);
  let m = p.match_node_with_env(c, &mut cow).is_some();
  let bound = cow.get_match("A").map(|n| n.node_id());
  std::mem::forget(cow);
  std::mem::forget(env);
  std::mem::forget(g);
  std::mem::forget(p);
  (m, bound, cid)
}

/// pattern = one terminal; returns (match_node_with_env matched, get_match_len)
pub fn real_len(goal: &Leaf, cand: &Leaf, s: u8) -> (bool, Option<usize>) {
  let node = PatternNode::Terminal {
    text: as_str(&[goal.text, goal.text], 2).to_string(),
    is_named: goal.named,
    kind_id: goal.kind,
  };
  let p: ast_grep_core::Pattern<HL> =
    ast_grep_core::verif_hooks::pattern::pattern_from_parts(node, None, strictness_of(s));
  let mut cands = [*cand; KMAX];
  cands[0] = *cand;
  let mut src = [b' '; 2 * KMAX];
  let d = flat_tree_w(&cands, 1, K_CALL, &mut src, 2);
  let g = mk_grep(as_str(&src, 2), d);
  let c = g.root().child(0).unwrap();
  let env = MetaVarEnv::new();
  let mut cow = Cow::Borrowed(&env);
  let m = p.match_node_with_env(c.clone(), &mut cow).is_some();
  let l = p.get_match_len(c);
  std::mem::forget(cow);
  std::mem::forget(env);
  std::mem::forget(g);
  std::mem::forget(p);
  (m, l)
}

#[cfg(test)]
mod tests {
  use super::*;
  #[test]
  fn smoke() {
    let named = Leaf { kind: mock_ts::K_IDENT, named: true, text: b'x' };
    let unnamed = Leaf { kind: mock_ts::K_PUNCT_A, named: false, text: anon_text(mock_ts::K_PUNCT_A) };
    for s in 0..5u8 {
      let (m, b, cid) = real_hole(true, true, &named, s);
      assert!(m && b == Some(cid));
      let (m, b, _) = real_hole(true, true, &unnamed, s);
      assert!(!m && b.is_none());
      let (m, b, cid) = real_hole(true, false, &unnamed, s);
      assert!(m && b == Some(cid));
      let (m, b, _) = real_hole(false, true, &unnamed, s);
      assert!(!m && b.is_none());
      let (m, b, _) = real_hole(false, false, &unnamed, s);
      assert!(m && b.is_none());
      let (m, l) = real_len(&named, &named, s);
      assert!(m && l == Some(2));
    }
  }
}

#[cfg(kani)]
mod proofs {
  use super::*;

  /// non-capturing holes `$_` / `$$_` (no environment write)
  #[kani::proof]
  #[kani::unwind(8)]
  fn c03_hole_named_only() {
    let named: bool = kani::any();
    let cand = any_leaf(true);
    let s: u8 = kani::any();
    kani::assume(s < 5);
    let (m, bound, _) = real_hole(false, named, &cand, s);
    kani::cover!(m && !cand.named);
    kani::cover!(!m);
    assert!(m == (!named || cand.named), "a hole marked as named binds only named nodes");
    assert!(bound.is_none(), "a non-capturing hole binds nothing");
  }

  /// capturing holes `$A` / `$$A`: lab tier -- the `MetaVarEnv` write makes Kani 0.68 report
  /// spurious pointer failures in `Vec<(String, Node)>` (DESIGN 3), the counterexample does
  /// not reproduce natively
  #[kani::proof]
  #[kani::unwind(8)]
  fn c03_hole_capture_binds() {
    let named: bool = kani::any();
    let cand = any_leaf(true);
    let s: u8 = kani::any();
    kani::assume(s < 5);
    let (m, bound, cid) = real_hole(true, named, &cand, s);
    kani::cover!(m && !cand.named);
    kani::cover!(!m);
    assert!(m == (!named || cand.named), "a hole marked as named binds only named nodes");
    if m {
      assert!(bound == Some(cid), "the hole is bound to exactly the candidate");
    } else {
      assert!(bound.is_none(), "no binding without a match");
    }
  }

  #[kani::proof]
  #[kani::unwind(8)]
  fn c03_match_len_terminal() {
    let goal = any_leaf(true);
    let cand = any_leaf(false);
    let s: u8 = kani::any();
    kani::assume(s < 5);
    let (m, l) = real_len(&goal, &cand, s);
    kani::cover!(m);
    kani::cover!(!m && goal.kind == cand.kind);
    // stated as the property states it (not as equivalence of the two aggregators): a node
    // that matches has a matched length, and a reported length never exceeds the node nor
    // splits it (a leaf is matched whole)
    assert!(!m || l.is_some(), "a matched node has a matched length");
    if let Some(n) = l {
      assert!(n == 2, "matched length == the token's length: never exceeds the node, never splits it");
    }
  }
}
