//! C19: navigation (`children/parent/child/ancestors/next_all/prev_all/field`) and the
//! three traversals (`Pre`, `Post`, `Level`) of the real `node.rs` / `traversal.rs` on
//! every tree of <= n nodes (symbolic shape, labels, layout), from every start node.
use crate::common::*;
use ast_grep_core::traversal::{Level, Post, Pre};

#[cfg(test)]
mod tests {
  use super::*;
  #[test]
  fn concrete_tree() {
    // 0(1(2,3),4)
    let mut parent = [0u8; MAXN];
    parent[1] = 0;
    parent[2] = 1;
    parent[3] = 1;
    parent[4] = 0;
    assert!(TreeData::is_preorder(5, &parent));
    let mut d = TreeData::from_parents(5, &parent);
    let total = d.layout(&[1; MAXN], &[0; MAXN]) as usize;
    d.fix_named_counts();
    assert_eq!(total, 3);
    let g = mk_grep(&SRC_X[..total], d);
    let pre: Vec<_> = Pre::new(&g.root()).map(|n| idx_of(&n)).collect();
    assert_eq!(pre, vec![0, 1, 2, 3, 4]);
    let post: Vec<_> = Post::new(&node_at(&g, 0)).map(|n| idx_of(&n)).collect();
    assert_eq!(post, vec![2, 3, 1, 4, 0]);
    let level: Vec<_> = Level::new(&g.root()).map(|n| idx_of(&n)).collect();
    assert_eq!(level, vec![0, 1, 4, 2, 3]);
    let anc: Vec<_> = node_at(&g, 3).ancestors().map(|n| idx_of(&n)).collect();
    assert_eq!(anc, vec![1, 0]);
    let nx: Vec<_> = node_at(&g, 2).next_all().map(|n| idx_of(&n)).collect();
    assert_eq!(nx, vec![3]);
    let (last, depth) = subtree_info(5, &parent);
    assert_eq!(&last[..5], &[4, 3, 2, 3, 4]);
    assert_eq!(&depth[..5], &[0, 1, 2, 2, 1]);
  }
}

#[cfg(kani)]
mod proofs {
  use super::*;

  fn setup(nmax: usize, min_width: u8) -> (SymTree, usize) {
    let t = any_tree(nmax, min_width);
    let start: usize = kani::any();
    kani::assume(start < t.n);
    (t, start)
  }

  /// children/parent/child(i)/ranges
  fn children_parent(nmax: usize) {
    let (t, i) = setup(nmax, 0);
    let g = mk_grep(&SRC_X[..t.total], t.data.clone());
    let node = node_at(&g, i);
    let mut cnt = 0;
    let mut prev_end = node.range().start;
    for (k, c) in node.children().enumerate() {
      let ci = idx_of(&c);
      assert!(t.parent[ci] as usize == i && ci > i);
      assert!(idx_of(&c.parent().unwrap()) == i);
      assert!(idx_of(&node.child(k).unwrap()) == ci);
      // ranges nest and are ordered
      assert!(c.range().start >= prev_end && c.range().end <= node.range().end);
      prev_end = c.range().end;
      cnt += 1;
    }
    // exact count: number of j with parent j == i
    let mut want = 0;
    let mut j = 1;
    while j < MAXN {
      if j < t.n && t.parent[j] as usize == i {
        want += 1;
      }
      j += 1;
    }
    assert!(cnt == want);
    assert!(node.child(cnt).is_none());
    assert!(node.is_leaf() == (want == 0));
    kani::cover!(want >= 2);
    kani::cover!(i > 0 && want >= 1);
    std::mem::forget(g);
  }

  /// ancestors = iterated parent, nearest first
  fn ancestors_chain(nmax: usize) {
    let (t, i) = setup(nmax, 0);
    let g = mk_grep(&SRC_X[..t.total], t.data.clone());
    let node = node_at(&g, i);
    let mut cur = i;
    let mut steps = 0;
    // NB the iterator is forgotten, not dropped: Kani 0.68's allocator model reports a
    // spurious `__rust_dealloc` size mismatch when an *empty* `Vec<Node>` collected from
    // `from_fn` is turned into `IntoIter` and dropped (minimised in DESIGN.md; plain
    // `Vec::new().into_iter()` of the same layout passes) -- not a property of ast-grep.
    let mut it = node.ancestors();
    while let Some(a) = it.next() {
      assert!(cur != 0);
      cur = t.parent[cur] as usize;
      assert!(idx_of(&a) == cur);
      steps += 1;
    }
    std::mem::forget(it);
    assert!(cur == 0);
    kani::cover!(steps >= 2);
    std::mem::forget(g);
  }

  /// next_all / prev_all = iterated next / prev (non-zero-width nodes, as the property states)
  fn siblings_iter(nmax: usize) {
    let (t, i) = setup(nmax, 1);
    let g = mk_grep(&SRC_X[..t.total], t.data.clone());
    let node = node_at(&g, i);
    let mut cur = node.clone();
    let mut k = 0;
    for s in node.next_all() {
      let nx = cur.next();
      assert!(nx.is_some());
      cur = nx.unwrap();
      assert!(idx_of(&s) == idx_of(&cur));
      k += 1;
    }
    assert!(cur.next().is_none());
    let mut cur = node.clone();
    let mut kp = 0;
    for s in node.prev_all() {
      let pv = cur.prev();
      assert!(pv.is_some());
      cur = pv.unwrap();
      assert!(idx_of(&s) == idx_of(&cur));
      kp += 1;
    }
    assert!(cur.prev().is_none());
    // next()/prev() themselves: adjacent siblings by arena order
    if let Some(nx) = node.next() {
      let ni = idx_of(&nx);
      assert!(ni > i && t.parent[ni] == t.parent[i]);
      let (last, _) = subtree_info(t.n, &t.parent);
      assert!(ni == last[i] + 1);
    }
    kani::cover!(k >= 2);
    kani::cover!(kp >= 1 && k >= 1);
    std::mem::forget(g);
  }

  /// `field_children(name)` / `field(name)` / `child_by_field_id(id)` agree with the field
  /// labels of the children (in order; first one for the single-child accessors)
  fn field_access(nmax: usize) {
    let (mut t, i) = setup(nmax, 0);
    let mut j = 0;
    while j < MAXN {
      if j < nmax && j > 0 {
        let f: u16 = kani::any();
        kani::assume(f <= 2);
        t.data.nodes[j].field = f;
      }
      j += 1;
    }
    let g = mk_grep(&SRC_X[..t.total], t.data.clone());
    let node = node_at(&g, i);
    // expected: children of i with field 1 ("fielda"), ascending
    let mut next_expected = i + 1;
    let mut count = 0;
    let mut first = usize::MAX;
    let mut it = node.field_children("fielda");
    while let Some(c) = it.next() {
      let ci = idx_of(&c);
      while next_expected < t.n && !(t.parent[next_expected] as usize == i && t.data.nodes[next_expected].field == 1) {
        next_expected += 1;
      }
      assert!(ci == next_expected);
      if first == usize::MAX {
        first = ci;
      }
      next_expected += 1;
      count += 1;
    }
    std::mem::forget(it);
    while next_expected < t.n && !(t.parent[next_expected] as usize == i && t.data.nodes[next_expected].field == 1) {
      next_expected += 1;
    }
    assert!(next_expected >= t.n, "a child carrying the field was not yielded");
    match node.field("fielda") {
      Some(c) => assert!(idx_of(&c) == first),
      None => assert!(count == 0),
    }
    match node.child_by_field_id(1) {
      Some(c) => assert!(idx_of(&c) == first),
      None => assert!(count == 0),
    }
    assert!(node.field("nosuchf").is_none());
    kani::cover!(count >= 2);
    kani::cover!(count == 1 && i > 0);
    std::mem::forget(g);
  }

  #[kani::proof]
  #[kani::unwind(10)]
  fn c19_field_access_n4() {
    field_access(4);
  }

  /// 0 = pre, 1 = post, 2 = level
  fn traversal_order(nmax: usize, which: u8) {
    let (t, start) = setup(nmax, 0);
    let g = mk_grep(&SRC_X[..t.total], t.data.clone());
    let node = node_at(&g, start);
    let (last, depth) = subtree_info(t.n, &t.parent);
    let mut pos = [usize::MAX; MAXN];
    let mut count = 0;
    macro_rules! record {
      ($it:expr) => {
        for v in $it {
          let vi = idx_of(&v);
          // never leaves the subtree, never repeats
          assert!(vi >= start && vi <= last[start]);
          assert!(pos[vi] == usize::MAX);
          pos[vi] = count;
          count += 1;
        }
      };
    }
    if which == 0 {
      record!(Pre::new(&node));
    } else if which == 1 {
      record!(Post::new(&node));
    } else {
      record!(Level::new(&node));
    }
    assert!(count == last[start] - start + 1);
    // total order is the specified one: decided pairwise
    let mut u = 0;
    while u < MAXN {
      let mut v = u + 1;
      while v < MAXN {
        if u >= start && v <= last[start] && v < t.n {
          let desc = v <= last[u];
          let want_u_first = match which {
            0 => true,
            1 => !desc,
            _ => depth[u] <= depth[v],
          };
          assert!((pos[u] < pos[v]) == want_u_first);
        }
        v += 1;
      }
      u += 1;
    }
    kani::cover!(count >= 2 && start > 0);
    kani::cover!(count == nmax);
    std::mem::forget(g);
  }

  /// Level order keeps a `VecDeque` of nodes; with a symbolic *shape* the CBMC instance
  /// exhausts 24 GB already at 3 nodes (measured).  Here every pre-order shape of <= 4
  /// nodes (9 shapes) and every start node are enumerated by concrete loops, while kinds,
  /// named bits (hence `named_child_count`), widths and gaps stay symbolic: whatever the
  /// traversal decides from node *labels* is decided by the solver, its dependence on
  /// the *shape* is covered shape by shape.
  fn level_shapes(nmax: usize, only_shape: Option<usize>) {
    let mut pv = [[0u8; MAXN]; 9];
    let mut ns = [0usize; 9];
    let mut cnt = 0;
    // enumerate parent vectors p[1..n), p[i] < i, pre-order condition
    let mut n = 1;
    while n <= nmax {
      let mut p1 = 0;
      while p1 < 1 {
        let mut p2 = 0;
        while p2 < 2 {
          let mut p3 = 0;
          while p3 < 3 {
            let mut parent = [0u8; MAXN];
            parent[1] = p1;
            parent[2] = p2;
            parent[3] = p3;
            let fresh = (n > 2 || p2 == 0) && (n > 3 || p3 == 0);
            if fresh && TreeData::is_preorder(n, &parent) {
              pv[cnt] = parent;
              ns[cnt] = n;
              cnt += 1;
            }
            p3 += 1;
          }
          p2 += 1;
        }
        p1 += 1;
      }
      n += 1;
    }
    // symbolic labels shared by all shapes
    let mut named = [true; MAXN];
    let mut width = [1u8; MAXN];
    let mut i = 0;
    while i < 4 {
      named[i] = kani::any();
      // widths stay concrete: a symbolic total length makes the document `String` a heap
      // object of symbolic size (DESIGN 3); Level never looks at byte ranges
      width[i] = 1;
      i += 1;
    }
    let mut sidx = 0;
    while sidx < cnt {
      if let Some(os) = only_shape {
        if os != sidx {
          sidx += 1;
          continue;
        }
      }
      let n = ns[sidx];
      let parent = pv[sidx];
      let mut d = TreeData::from_parents(n, &parent);
      let mut i = 0;
      while i < 4 {
        d.nodes[i].named = named[i];
        i += 1;
      }
      let total = d.layout(&width, &[0; MAXN]) as usize;
      d.fix_named_counts();
      let (last, depth) = subtree_info(n, &parent);
      let _ = total;
      let g = mk_grep(SRC_X, d);
      let mut start = 0;
      while start < n {
        let node = node_at(&g, start);
        let mut pos = [usize::MAX; MAXN];
        let mut count = 0;
        let mut it = Level::new(&node);
        while let Some(v) = it.next() {
          let vi = idx_of(&v);
          assert!(vi >= start && vi <= last[start]);
          assert!(pos[vi] == usize::MAX);
          pos[vi] = count;
          count += 1;
        }
        std::mem::forget(it);
        assert!(count == last[start] - start + 1, "level order must visit the whole subtree");
        let mut u = start;
        while u <= last[start] {
          let mut v = u + 1;
          while v <= last[start] {
            assert!((pos[u] < pos[v]) == (depth[u] <= depth[v]));
            v += 1;
          }
          u += 1;
        }
        if start == 0 {
          kani::cover!(!named[1] && !named[2]);
        }
        start += 1;
      }
      std::mem::forget(g);
      sidx += 1;
    }
  }

  /// `Level` on ANY(n) with the FIFO shim `VecQueue` standing in for `VecDeque` (hook):
  /// from every start node it visits exactly the subtree, once each, by non-decreasing depth
  fn level_any(nmax: usize) {
    let t = any_tree(nmax, 1);
    let (last, depth) = subtree_info(t.n, &t.parent);
    let g = mk_grep(SRC_X, t.data.clone());
    let start: usize = kani::any();
    kani::assume(start < t.n);
    let node = node_at(&g, start);
    let mut pos = [usize::MAX; MAXN];
    let mut count = 0;
    let mut it = Level::new(&node);
    while let Some(v) = it.next() {
      let vi = idx_of(&v);
      assert!(vi >= start && vi <= last[start], "level order left the subtree");
      assert!(pos[vi] == usize::MAX, "node visited twice");
      pos[vi] = count;
      count += 1;
    }
    std::mem::forget(it);
    assert!(count == last[start] - start + 1, "level order must visit the whole subtree");
    let mut u = 0;
    while u < MAXN {
      let mut v = u + 1;
      while v < MAXN {
        if u >= start && v <= last[start] {
          // same depth: document order; otherwise shallower first
          assert!((pos[u] < pos[v]) == (depth[u] <= depth[v]));
        }
        v += 1;
      }
      u += 1;
    }
    kani::cover!(count == 4);
    kani::cover!(count == 2 && start > 0);
    std::mem::forget(g);
  }

  /// `Level` on one concrete shape (parent vector given), labels symbolic, from the root and
  /// from node 1: everything the queue does has a concrete size
  fn level_fixed(n: usize, parent: [u8; MAXN]) {
    let mut d = TreeData::from_parents(n, &parent);
    let mut i = 0;
    while i < MAXN {
      if i < n {
        d.nodes[i].kind = any_kind();
        d.nodes[i].named = kani::any();
      }
      i += 1;
    }
    d.layout(&[1; MAXN], &[0; MAXN]);
    d.fix_named_counts();
    let (last, depth) = subtree_info(n, &parent);
    let any_unnamed_inner = !d.nodes[1].named;
    let g = mk_grep(SRC_X, d);
    let mut start = 0;
    while start < 2 {
      let node = node_at(&g, start);
      let mut pos = [usize::MAX; MAXN];
      let mut count = 0;
      let mut it = Level::new(&node);
      while let Some(v) = it.next() {
        let vi = idx_of(&v);
        assert!(vi >= start && vi <= last[start], "level order left the subtree");
        assert!(pos[vi] == usize::MAX, "node visited twice");
        pos[vi] = count;
        count += 1;
      }
      std::mem::forget(it);
      assert!(count == last[start] - start + 1, "level order must visit the whole subtree");
      let mut u = 0;
      while u < MAXN {
        let mut v = u + 1;
        while v < MAXN {
          if u >= start && v <= last[start] {
            assert!((pos[u] < pos[v]) == (depth[u] <= depth[v]));
          }
          v += 1;
        }
        u += 1;
      }
      start += 1;
    }
    kani::cover!(any_unnamed_inner);
    kani::cover!(!any_unnamed_inner);
    std::mem::forget(g);
  }

  /// root -> 1 -> 2, root -> 3
  #[kani::proof]
  #[kani::unwind(6)]
  fn c19_levelq_shape_a() {
    let mut p = [0u8; MAXN];
    p[2] = 1;
    level_fixed(4, p);
  }
  /// root -> 1 -> {2, 3}
  #[kani::proof]
  #[kani::unwind(6)]
  fn c19_levelq_shape_b() {
    let mut p = [0u8; MAXN];
    p[2] = 1;
    p[3] = 1;
    level_fixed(4, p);
  }
  /// root -> 1 -> 2 -> 3 (chain)
  #[kani::proof]
  #[kani::unwind(6)]
  fn c19_levelq_shape_c() {
    let mut p = [0u8; MAXN];
    p[2] = 1;
    p[3] = 2;
    level_fixed(4, p);
  }
  /// root -> {1, 2 -> 3}
  #[kani::proof]
  #[kani::unwind(6)]
  fn c19_levelq_shape_d() {
    let mut p = [0u8; MAXN];
    p[3] = 2;
    level_fixed(4, p);
  }

  #[kani::proof]
  #[kani::unwind(6)]
  fn c19_levelq_order_n4() {
    level_any(4);
  }

  #[kani::proof]
  #[kani::unwind(10)]
  fn c19_level_order_shapes_n4() {
    level_shapes(4, None);
  }
  macro_rules! level_shape {
    ($name:ident, $shape:expr) => {
      #[kani::proof]
      #[kani::unwind(10)]
      fn $name() {
        level_shapes(4, Some($shape));
      }
    };
  }
  level_shape!(c19_level_shape2, 2);
  level_shape!(c19_level_shape3, 3);
  level_shape!(c19_level_shape4, 4);
  level_shape!(c19_level_shape5, 5);
  level_shape!(c19_level_shape6, 6);
  level_shape!(c19_level_shape7, 7);
  level_shape!(c19_level_shape8, 8);

  #[kani::proof]
  #[kani::unwind(10)]
  fn c19_children_parent_n4() {
    children_parent(4);
  }
  #[kani::proof]
  #[kani::unwind(10)]
  fn c19_ancestors_chain_n4() {
    ancestors_chain(4);
  }
  #[kani::proof]
  #[kani::unwind(10)]
  fn c19_siblings_iter_n4() {
    siblings_iter(4);
  }
  #[kani::proof]
  #[kani::unwind(10)]
  fn c19_pre_order_n4() {
    traversal_order(4, 0);
  }
  #[kani::proof]
  #[kani::unwind(10)]
  fn c19_post_order_n4() {
    traversal_order(4, 1);
  }
  #[kani::proof]
  #[kani::unwind(10)]
  fn c19_level_order_n4() {
    traversal_order(4, 2);
  }
  #[kani::proof]
  #[kani::unwind(10)]
  fn c19_level_order_n3() {
    traversal_order(3, 2);
  }
  #[kani::proof]
  #[kani::unwind(10)]
  fn c19_children_parent_n5() {
    children_parent(5);
  }
  #[kani::proof]
  #[kani::unwind(10)]
  fn c19_ancestors_chain_n5() {
    ancestors_chain(5);
  }
  #[kani::proof]
  #[kani::unwind(10)]
  fn c19_siblings_iter_n5() {
    siblings_iter(5);
  }
  #[kani::proof]
  #[kani::unwind(10)]
  fn c19_pre_order_n5() {
    traversal_order(5, 0);
  }
  #[kani::proof]
  #[kani::unwind(10)]
  fn c19_post_order_n5() {
    traversal_order(5, 1);
  }
  #[kani::proof]
  #[kani::unwind(10)]
  fn c19_level_order_n5() {
    traversal_order(5, 2);
  }
}
