//! C07-3 `indent_roundtrip`: `get_indent_at_offset`, `extract_with_deindent` and
//! `indent_lines` (real `replacer/indent.rs`, hook H2) on symbolic multi-line text.
//!
//!  * `get_indent_at_offset(prefix)` == number of leading spaces of the last line of
//!    `prefix` (0 when that line is longer than the 512-byte look-ahead: not reachable at
//!    these sizes);
//!  * re-indenting what was extracted at the column it was extracted from is the identity
//!    (=> rewriting a node to itself is a no-op), under the property's precondition that
//!    every continuation line is indented at least as far as the first line;
//!  * shifting to another column adds / removes exactly the difference on every
//!    continuation line and never touches the first line.
use crate::common::*;
use ast_grep_core::replacer::verif_hooks::{extract_with_deindent, get_indent_at_offset, indent_lines};

/// leading spaces of the line containing `pos` (independent forward scan)
pub fn line_indent(t: &[u8], pos: usize) -> usize {
  let mut ls = 0;
  let mut i = 0;
  while i < pos {
    if t[i] == b'\n' {
      ls = i + 1;
    }
    i += 1;
  }
  let mut k = 0;
  while ls + k < pos && t[ls + k] == b' ' {
    k += 1;
  }
  k
}

/// expected text when a block extracted at column `from` is re-inserted at column `to`
/// (continuation lines start with >= `from` spaces)
pub fn spec_shift(block: &[u8], from: usize, to: usize, out: &mut [u8; 32]) -> usize {
  let mut n = 0;
  let mut i = 0;
  while i < block.len() {
    out[n] = block[i];
    n += 1;
    if block[i] == b'\n' {
      // drop `from` spaces, add `to`
      i += 1;
      let mut d = 0;
      while d < from && i < block.len() && block[i] == b' ' {
        i += 1;
        d += 1;
      }
      let mut a = 0;
      while a < to {
        out[n] = b' ';
        n += 1;
        a += 1;
      }
      continue;
    }
    i += 1;
  }
  n
}

#[cfg(test)]
mod tests {
  use super::*;
  #[test]
  fn vectors() {
    let src = "  f(\n    x\n  )".to_string();
    assert_eq!(get_indent_at_offset::<String>(&src.as_bytes()[..2]), 2);
    let ex = extract_with_deindent(&src, 2..src.len());
    let back = indent_lines::<String>(2, ex);
    assert_eq!(&*back, &src.as_bytes()[2..]);
    let ex = extract_with_deindent(&src, 2..src.len());
    let shifted = indent_lines::<String>(0, ex);
    assert_eq!(&*shifted, b"f(\n  x\n)");
    let mut out = [0u8; 32];
    let n = spec_shift(&src.as_bytes()[2..], 2, 0, &mut out);
    assert_eq!(&out[..n], b"f(\n  x\n)");
  }
}

#[cfg(kani)]
mod proofs {
  use super::*;

  #[kani::proof]
  #[kani::unwind(10)]
  fn c07_indent_at_offset_n8() {
    let (buf, len) = any_bytes::<8, 3>(b" x\n");
    let got = get_indent_at_offset::<String>(&buf[..len]);
    let want = line_indent(&buf[..len], len);
    kani::cover!(want >= 2);
    kani::cover!(want == 0 && len >= 3);
    assert!(got == want);
  }

  /// text = `from` spaces + block, block = first line + continuation lines each indented
  /// >= `from`; sizes concrete per call (heap containers), contents symbolic
  fn roundtrip(from: usize, to: usize, lens: [usize; 3], extra: [usize; 3]) {
    // build: "<from spaces>L0\n<from+e1 spaces>L1\n<from+e2 spaces>L2"
    let mut text = [b'x'; 32];
    let mut n = 0;
    let mut i = 0;
    while i < from {
      text[n] = b' ';
      n += 1;
      i += 1;
    }
    let start = n;
    let mut l = 0;
    while l < 3 {
      if l > 0 {
        text[n] = b'\n';
        n += 1;
        let mut i = 0;
        while i < from + extra[l] {
          text[n] = b' ';
          n += 1;
          i += 1;
        }
      }
      let mut i = 0;
      while i < lens[l] {
        // non-space, non-newline content (symbolic between two letters)
        text[n] = if kani::any() { b'x' } else { b'y' };
        n += 1;
        i += 1;
      }
      l += 1;
    }
    let src = unsafe { String::from_utf8_unchecked(text[..n].to_vec()) };
    let ex = extract_with_deindent(&src, start..n);
    let got = indent_lines::<String>(to, ex);
    let mut want = [0u8; 32];
    let wn = spec_shift(&text[start..n], from, to, &mut want);
    assert!(got.len() == wn);
    let mut i = 0;
    while i < 32 {
      if i < wn {
        assert!(got[i] == want[i]);
      }
      i += 1;
    }
    if from == to {
      // identity: rewriting a node to itself
      assert!(&*got == &text[start..n]);
    }
    std::mem::forget(got);
    std::mem::forget(src);
  }

  /// two lines of one symbolic character each ("?\n?" preceded by `from` spaces, the second
  /// line indented `from` more): the smallest text on which re-indentation by a non-zero
  /// shift is observable; small unwinding bound (the text is <= 8 bytes)
  fn roundtrip2(from: usize, to: usize) {
    let mut text = [b'x'; 16];
    let mut n = 0;
    let mut i = 0;
    while i < from {
      text[n] = b' ';
      n += 1;
      i += 1;
    }
    let start = n;
    text[n] = if kani::any() { b'x' } else { b'y' };
    n += 1;
    text[n] = b'\n';
    n += 1;
    let mut i = 0;
    while i < from {
      text[n] = b' ';
      n += 1;
      i += 1;
    }
    text[n] = if kani::any() { b'x' } else { b'y' };
    n += 1;
    let src = unsafe { String::from_utf8_unchecked(text[..n].to_vec()) };
    let ex = extract_with_deindent(&src, start..n);
    let got = indent_lines::<String>(to, ex);
    let mut want = [0u8; 32];
    let wn = spec_shift(&text[start..n], from, to, &mut want);
    assert!(got.len() == wn, "re-indented length");
    let mut i = 0;
    while i < 8 {
      if i < wn {
        assert!(got[i] == want[i], "continuation lines keep their relative indentation, shifted to the new column");
      }
      i += 1;
    }
    kani::cover!(wn > n - start);
    kani::cover!(wn < n - start);
    std::mem::forget(got);
    std::mem::forget(src);
  }
  macro_rules! rt2_harness {
    ($name:ident, $from:expr, $to:expr) => {
      #[kani::proof]
      #[kani::unwind(10)]
      fn $name() {
        roundtrip2($from, $to);
      }
    };
  }
  rt2_harness!(c07_indent_shift2_0_to_1, 0, 1);
  rt2_harness!(c07_indent_shift2_0_to_2, 0, 2);
  rt2_harness!(c07_indent_shift2_1_to_0, 1, 0);
  rt2_harness!(c07_indent_shift2_1_to_2, 1, 2);
  rt2_harness!(c07_indent_shift2_2_to_1, 2, 1);

  /// Re-indentation on a finite grid: the block `ab\n<from+1 spaces>c\n<from spaces>d`
  /// extracted at column `from` and re-inserted at column `to`, (from, to) in {0,1,2}^2 given
  /// by ONE symbolic index that is case-split, so that inside a case every size is concrete
  /// (symbolic contents already make `split` positions symbolic: the two-line harnesses
  /// above run out of memory).  Inside a case nothing is symbolic: this is the real code
  /// executed by the model checker on nine concrete cases.
  fn reindent_case(from: usize, to: usize) {
    let mut text = [b'x'; 24];
    let mut n = 0;
    let mut i = 0;
    while i < from {
      text[n] = b' ';
      n += 1;
      i += 1;
    }
    let start = n;
    text[n] = b'a';
    text[n + 1] = b'b';
    text[n + 2] = b'\n';
    n += 3;
    let mut i = 0;
    while i < from + 1 {
      text[n] = b' ';
      n += 1;
      i += 1;
    }
    text[n] = b'c';
    text[n + 1] = b'\n';
    n += 2;
    let mut i = 0;
    while i < from {
      text[n] = b' ';
      n += 1;
      i += 1;
    }
    text[n] = b'd';
    n += 1;
    let src = unsafe { String::from_utf8_unchecked(text[..n].to_vec()) };
    let ex = extract_with_deindent(&src, start..n);
    let got = indent_lines::<String>(to, ex);
    let mut want = [0u8; 32];
    let wn = spec_shift(&text[start..n], from, to, &mut want);
    assert!(got.len() == wn, "re-indented length");
    let mut i = 0;
    while i < 20 {
      if i < wn {
        assert!(got[i] == want[i], "continuation lines keep their relative indentation, shifted to the new column");
      }
      i += 1;
    }
    std::mem::forget(got);
    std::mem::forget(src);
  }
  #[kani::proof]
  #[kani::unwind(22)]
  fn c07_reindent_grid() {
    let idx: usize = kani::any();
    kani::assume(idx < 9);
    let mut k = 0;
    while k < 9 {
      if idx == k {
        reindent_case(k / 3, k % 3);
      }
      k += 1;
    }
    kani::cover!(idx == 2);
    kani::cover!(idx == 6);
  }

  macro_rules! rt_harness {
    ($name:ident, $from:expr, $to:expr, $lens:expr, $extra:expr) => {
      #[kani::proof]
      #[kani::unwind(34)]
      fn $name() {
        roundtrip($from, $to, $lens, $extra);
        kani::cover!(true);
      }
    };
  }
  rt_harness!(c07_indent_shift_2_to_0, 2, 0, [1, 2, 1], [1, 0, 0]);
  rt_harness!(c07_indent_shift_0_to_2, 0, 2, [1, 2, 1], [1, 0, 0]);
  rt_harness!(c07_indent_identity_1, 1, 1, [2, 1, 0], [0, 2, 0]);
  rt_harness!(c07_indent_shift_2_to_1, 2, 1, [2, 1, 0], [0, 2, 0]);
}
