//! C01-1/2 and C06-1/3: the search drivers of the real core crate on every tree of <= n
//! nodes with a *symbolic matcher*:
//!  * `FindAllNodes` (kind prefilter + `Pre`) reports exactly the matching nodes, in
//!    document order;
//!  * `Visitor::reentrant(false)` (overlap-free, used by `replace_all` and the interactive
//!    printer) reports exactly the outermost matches, in document order;
//!  * `Node::replace_all` produces ordered, pairwise disjoint, in-bounds edits whose
//!    range is `[start, start + match_len)` (default `Replacer::get_replaced_range`).
use crate::common::*;
use ast_grep_core::matcher::{Matcher, NodeMatch};
use ast_grep_core::meta_var::MetaVarEnv;
use ast_grep_core::replacer::Replacer;
use ast_grep_core::traversal::Visitor;
use ast_grep_core::{Doc, Node};
use bit_set::BitSet;
use std::borrow::Cow;

/// A matcher whose verdict per node, advertised kind set and match length are symbolic.
pub struct SymM {
  pub bits: [bool; MAXN],
  pub kinds: Option<BitSet>,
  /// how many trailing bytes `get_match_len` trims off (per node), `None` = no length
  pub trim: [Option<u8>; MAXN],
}

impl Matcher<HL> for SymM {
  fn match_node_with_env<'tree, D: Doc<Lang = HL>>(
    &self,
    node: Node<'tree, D>,
    _env: &mut Cow<MetaVarEnv<'tree, D>>,
  ) -> Option<Node<'tree, D>> {
    if self.bits[node.node_id() - 1] {
      Some(node)
    } else {
      None
    }
  }
  fn potential_kinds(&self) -> Option<BitSet> {
    self.kinds.clone()
  }
  fn get_match_len<D: Doc<Lang = HL>>(&self, node: Node<D>) -> Option<usize> {
    let t = self.trim[node.node_id() - 1]?;
    let len = node.range().len();
    Some(len - (t as usize).min(len))
  }
}

pub struct ConstR;
impl<D: Doc> Replacer<D> for ConstR {
  fn generate_replacement(&self, _nm: &NodeMatch<D>) -> Vec<<D::Source as ast_grep_core::source::Content>::Underlying> {
    Vec::new()
  }
}

#[cfg(kani)]
pub fn any_symm(t: &SymTree, nmax: usize, with_kinds: bool) -> SymM {
  let mut bits = [false; MAXN];
  let mut trim = [None; MAXN];
  let mut i = 0;
  while i < MAXN {
    if i < nmax {
      bits[i] = kani::any();
      if kani::any() {
        let x: u8 = kani::any();
        kani::assume(x <= 2);
        trim[i] = Some(x);
      }
    }
    i += 1;
  }
  let kinds = if with_kinds && kani::any() {
    let mask: u16 = kani::any();
    // fix the capacity first: `insert` grows the bit vector when the value is beyond its
    // length, and a growth under a symbolic condition is a heap object of symbolic size
    let mut set = BitSet::new();
    set.insert(15);
    set.remove(15);
    // with the 4-node arena the harness loops are bounded by 5: kinds 1..4 only
    let kmax = if MAXN <= 4 { 4 } else { 8 };
    let mut k = 1;
    while k <= kmax {
      if mask & (1 << k) != 0 {
        set.insert(k);
      }
      k += 1;
    }
    // contract of `potential_kinds`: it contains the kind of every node the matcher accepts
    let mut i = 0;
    while i < MAXN {
      if i < t.n && bits[i] {
        let kd = t.data.nodes[i].kind;
        kani::assume(kd as usize <= kmax && mask & (1 << kd) != 0);
      }
      i += 1;
    }
    Some(set)
  } else {
    None
  };
  SymM { bits, kinds, trim }
}

#[cfg(test)]
mod tests {
  use super::*;
  #[test]
  fn concrete() {
    let mut parent = [0u8; MAXN];
    parent[2] = 1;
    parent[3] = 0;
    let mut d = TreeData::from_parents(4, &parent);
    let total = d.layout(&[1; MAXN], &[0; MAXN]) as usize;
    d.fix_named_counts();
    let g = mk_grep(&SRC_X[..total], d);
    let mut bits = [false; MAXN];
    bits[1] = true;
    bits[2] = true;
    bits[3] = true;
    let m = SymM { bits, kinds: None, trim: [None; MAXN] };
    let all: Vec<_> = g.root().find_all(&m).map(|n| idx_of(&n)).collect();
    assert_eq!(all, vec![1, 2, 3]);
    let outer: Vec<_> = Visitor::new(&m).reentrant(false).visit(g.root()).map(|n| idx_of(&n)).collect();
    assert_eq!(outer, vec![1, 3]);
    let edits = g.root().replace_all(&m, ConstR);
    assert_eq!(edits.len(), 2);
  }
}

#[cfg(kani)]
mod proofs {
  use super::*;

  fn find_all_exact(nmax: usize) {
    let t = any_tree(nmax, 0);
    let m = any_symm(&t, nmax, true);
    let g = mk_grep(SRC_X, t.data.clone());
    let start: usize = kani::any();
    kani::assume(start < t.n);
    let (last, _) = subtree_info(t.n, &t.parent);
    let node = node_at(&g, start);
    // expected: matching nodes of the subtree, ascending pre-order index
    let mut next_expected = start;
    let mut count = 0;
    let mut it = node.find_all(&m);
    while let Some(nm) = it.next() {
      let i = idx_of(&nm);
      // skip non-matching nodes in the expectation
      while next_expected <= last[start] && !m.bits[next_expected] {
        next_expected += 1;
      }
      assert!(i == next_expected, "missed, invented or out-of-order match");
      next_expected += 1;
      count += 1;
    }
    while next_expected <= last[start] && !m.bits[next_expected] {
      next_expected += 1;
    }
    assert!(next_expected == last[start] + 1, "a matching node was dropped");
    kani::cover!(count >= 2 && m.kinds.is_some());
    kani::cover!(count == 0 && m.kinds.is_some() && t.n >= 3);
    kani::cover!(count >= 2 && start > 0);
    std::mem::forget(it);
    std::mem::forget(m);
    std::mem::forget(g);
  }

  fn outermost(nmax: usize) {
    let t = any_tree(nmax, 0);
    let m = any_symm(&t, nmax, false);
    let g = mk_grep(SRC_X, t.data.clone());
    let start: usize = kani::any();
    kani::assume(start < t.n);
    let (last, _) = subtree_info(t.n, &t.parent);
    let node = node_at(&g, start);
    // expected: matched nodes with no matched proper ancestor inside the start subtree
    let mut outer = [false; MAXN];
    let mut i = 0;
    while i < MAXN {
      if i >= start && i <= last[start] && i < t.n && m.bits[i] {
        let mut shadowed = false;
        let mut a = i;
        let mut guard = 0;
        while a != start && guard < MAXN {
          a = t.parent[a] as usize;
          if m.bits[a] {
            shadowed = true;
          }
          guard += 1;
        }
        outer[i] = !shadowed;
      }
      i += 1;
    }
    let mut next_expected = start;
    let mut count = 0;
    let mut it = Visitor::new(&m).reentrant(false).visit(node);
    while let Some(nm) = it.next() {
      let i = idx_of(&nm);
      while next_expected <= last[start] && !outer[next_expected] {
        next_expected += 1;
      }
      assert!(i == next_expected);
      next_expected += 1;
      count += 1;
    }
    while next_expected <= last[start] && !outer[next_expected] {
      next_expected += 1;
    }
    assert!(next_expected == last[start] + 1);
    kani::cover!(count >= 2);
    kani::cover!(count == 1 && m.bits[start] && t.n >= 3);
    std::mem::forget(it);
    std::mem::forget(g);
  }

  fn replace_all_disjoint(nmax: usize) {
    let t = any_tree(nmax, 0);
    let m = any_symm(&t, nmax, false);
    let g = mk_grep(SRC_X, t.data.clone());
    let edits = g.root().replace_all(&m, ConstR);
    let mut prev_end = 0;
    let mut i = 0;
    while i < edits.len() {
      let e = &edits[i];
      // ordered, disjoint, inside the file
      assert!(e.position >= prev_end);
      assert!(e.position + e.deleted_length <= t.total);
      prev_end = e.position + e.deleted_length;
      i += 1;
    }
    // each edit starts at an (outermost) matched node and is contained in its extent
    let mut i = 0;
    while i < edits.len() {
      let e = &edits[i];
      let mut ok = false;
      let mut j = 0;
      while j < MAXN {
        if j < t.n && m.bits[j] {
          let nd = &t.data.nodes[j];
          let full = (nd.end - nd.start) as usize;
          let want_len = match m.trim[j] {
            None => full,
            Some(x) => full - (x as usize).min(full),
          };
          if nd.start as usize == e.position && e.deleted_length == want_len {
            ok = true;
          }
        }
        j += 1;
      }
      assert!(ok);
      i += 1;
    }
    kani::cover!(edits.len() >= 2);
    kani::cover!(edits.len() == 1 && edits[0].deleted_length == 0);
    std::mem::forget(edits);
    std::mem::forget(g);
  }

  /// Shape-enumerated variants: all 9 pre-order shapes of <= 4 nodes and every start node
  /// by concrete loops; verdict vector, kind labels, advertised kind set and match lengths
  /// symbolic.  (With a symbolic *shape* the same drivers need > 15 min each.)
  fn shapes_driver(which: u8, only_shape: Option<usize>) {
    let mut bits = [false; MAXN];
    let mut kinds = [1u16; MAXN];
    let mut trim = [None; MAXN];
    let mut i = 0;
    while i < 4 {
      bits[i] = kani::any();
      let k: u16 = kani::any();
      kani::assume(k >= 1 && k <= 8);
      kinds[i] = k;
      if kani::any() {
        let x: u8 = kani::any();
        kani::assume(x <= 1);
        trim[i] = Some(x);
      }
      i += 1;
    }
    // advertised kind set: None, or a mask that contains the kind of every accepted node
    let with_kinds: bool = kani::any();
    let mask: u16 = kani::any();
    let (pv, ns, cnt) = all_shapes(4);
    let mut sidx = 0;
    while sidx < cnt {
      if let Some(os) = only_shape {
        if os != sidx {
          sidx += 1;
          continue;
        }
      }
      let n = ns[sidx];
      let parent = pv[sidx];
      let mut d = TreeData::from_parents(n, &parent);
      let mut i = 0;
      while i < 4 {
        if i < n {
          d.nodes[i].kind = kinds[i];
          if with_kinds && bits[i] {
            kani::assume(mask & (1 << kinds[i]) != 0);
          }
        }
        i += 1;
      }
      let total = d.layout(&[1; MAXN], &[0; MAXN]) as usize;
      d.fix_named_counts();
      let (last, _) = subtree_info(n, &parent);
      let kinds_set = if with_kinds && which == 0 {
        let mut set = BitSet::new();
        let mut k = 1;
        while k <= 8 {
          if mask & (1 << k) != 0 {
            set.insert(k);
          }
          k += 1;
        }
        Some(set)
      } else {
        None
      };
      let m = SymM { bits, kinds: kinds_set, trim };
      let g = mk_grep(&SRC_X[..total], d.clone());
      let mut start = 0;
      while start < n {
        let node = node_at(&g, start);
        // expected result set
        let mut expect = [false; MAXN];
        let mut i = start;
        while i <= last[start] {
          if bits[i] {
            let mut shadowed = false;
            if which != 0 {
              let mut a = i;
              while a != start {
                a = parent[a] as usize;
                if bits[a] {
                  shadowed = true;
                }
              }
            }
            expect[i] = !shadowed;
          }
          i += 1;
        }
        let mut next_expected = start;
        if which == 0 {
          let mut it = node.find_all(&m);
          while let Some(nm) = it.next() {
            let i = idx_of(&nm);
            while next_expected <= last[start] && !expect[next_expected] {
              next_expected += 1;
            }
            assert!(i == next_expected, "missed, invented or out-of-order match");
            next_expected += 1;
          }
          std::mem::forget(it);
        } else if which == 1 {
          let mut it = Visitor::new(&m).reentrant(false).visit(node);
          while let Some(nm) = it.next() {
            let i = idx_of(&nm);
            while next_expected <= last[start] && !expect[next_expected] {
              next_expected += 1;
            }
            assert!(i == next_expected);
            next_expected += 1;
          }
          std::mem::forget(it);
        } else {
          let edits = node.replace_all(&m, ConstR);
          let mut prev_end = 0;
          let mut e = 0;
          while e < edits.len() {
            while next_expected <= last[start] && !expect[next_expected] {
              next_expected += 1;
            }
            // edit e belongs to the e-th outermost match
            assert!(next_expected <= last[start]);
            let nd = &d.nodes[next_expected];
            let full = (nd.end - nd.start) as usize;
            let want_len = match trim[next_expected] {
              None => full,
              Some(x) => full - (x as usize).min(full),
            };
            assert!(edits[e].position == nd.start as usize && edits[e].deleted_length == want_len);
            assert!(edits[e].position >= prev_end && edits[e].position + edits[e].deleted_length <= total);
            prev_end = edits[e].position + edits[e].deleted_length;
            next_expected += 1;
            e += 1;
          }
          std::mem::forget(edits);
        }
        while next_expected <= last[start] && !expect[next_expected] {
          next_expected += 1;
        }
        assert!(next_expected == last[start] + 1, "a matching node was dropped");
        start += 1;
      }
      std::mem::forget(m);
      std::mem::forget(g);
      sidx += 1;
    }
    kani::cover!(bits[0] && bits[1] && bits[3]);
    kani::cover!(!bits[0] && bits[2]);
  }

  /// one harness per (driver, shape): shapes 0..8 in the order of `all_shapes(4)`
  /// (0: 1 node; 1: 2 nodes; 2,3: 3 nodes; 4..8: 4 nodes)
  macro_rules! shape_harness {
    ($name:ident, $which:expr, $shape:expr) => {
      #[kani::proof]
      #[kani::unwind(10)]
      fn $name() {
        shapes_driver($which, Some($shape));
      }
    };
  }
  shape_harness!(c01_find_all_shape2, 0, 2);
  shape_harness!(c01_find_all_shape3, 0, 3);
  shape_harness!(c01_find_all_shape4, 0, 4);
  shape_harness!(c01_find_all_shape5, 0, 5);
  shape_harness!(c01_find_all_shape6, 0, 6);
  shape_harness!(c01_find_all_shape7, 0, 7);
  shape_harness!(c01_find_all_shape8, 0, 8);
  shape_harness!(c01_outermost_shape2, 1, 2);
  shape_harness!(c01_outermost_shape3, 1, 3);
  shape_harness!(c01_outermost_shape4, 1, 4);
  shape_harness!(c01_outermost_shape5, 1, 5);
  shape_harness!(c01_outermost_shape6, 1, 6);
  shape_harness!(c01_outermost_shape7, 1, 7);
  shape_harness!(c01_outermost_shape8, 1, 8);
  shape_harness!(c06_replace_all_shape2, 2, 2);
  shape_harness!(c06_replace_all_shape3, 2, 3);
  shape_harness!(c06_replace_all_shape4, 2, 4);
  shape_harness!(c06_replace_all_shape5, 2, 5);
  shape_harness!(c06_replace_all_shape6, 2, 6);
  shape_harness!(c06_replace_all_shape7, 2, 7);
  shape_harness!(c06_replace_all_shape8, 2, 8);

  #[kani::proof]
  #[kani::unwind(6)]
  fn c01_find_all_exact_n4() {
    find_all_exact(4);
  }
  #[kani::proof]
  #[kani::unwind(10)]
  fn c01_find_all_exact_n5() {
    find_all_exact(5);
  }
  #[kani::proof]
  #[kani::unwind(6)]
  fn c01_outermost_pre_n4() {
    outermost(4);
  }
  #[kani::proof]
  #[kani::unwind(10)]
  fn c01_outermost_pre_n5() {
    outermost(5);
  }
  #[kani::proof]
  #[kani::unwind(6)]
  fn c06_replace_all_disjoint_n4() {
    replace_all_disjoint(4);
  }
}
