//! C03 (soundness of reported matches) and C02 (holes match what they were cut from) on
//! flat sibling lists: the real `Pattern::match_node` / `get_match_len`
//! (`match_node_impl` <-> `match_nodes_impl_recursive` <-> `may_match_ellipsis_impl`,
//! `MatchStrictness::*`, `MetaVarEnv::insert*`) against an alignment oracle written from
//! the property text.
//!
//! Shape class FLAT(k): candidate = root + k leaf children; pattern = Internal root with a
//! *concrete variant vector* of children (Terminal / `$A` / `$$A` / `$$$` / `$$$A`), one
//! harness per variant vector; every label (kinds, texts, named bits), the number of
//! candidate children and the strictness are symbolic inside a harness.
use crate::common::*;
use ast_grep_core::matcher::{Matcher, MatcherExt, Pattern, PatternNode};
use ast_grep_core::meta_var::MetaVariable;
use ast_grep_core::MatchStrictness;
use mock_ts::{kind_is_named, ERROR_KIND, K_CALL, K_COMMENT, K_IDENT, K_NUMBER, K_PUNCT_A, K_PUNCT_B};

pub const KMAX: usize = 4;

/// goal variants
#[derive(Clone, Copy, PartialEq, Eq, Debug)]
pub enum G {
  /// terminal with symbolic kind / text
  T,
  /// `$A`-style capture, named only
  CapNamed,
  /// `$$A`-style capture, any node
  CapAny,
  /// `$$$`
  Ell,
  /// `$$$A`
  EllCap,
}

#[derive(Clone, Copy)]
pub struct Leaf {
  pub kind: u16,
  pub named: bool,
  pub text: u8,
}

/// text of anonymous tokens is fixed by their kind (tree-sitter: an anonymous node's kind
/// *is* its literal text); named leaves carry a symbolic one-byte text
pub fn anon_text(kind: u16) -> u8 {
  if kind == K_PUNCT_A {
    b','
  } else {
    b';'
  }
}

pub fn strictness_of(s: u8) -> MatchStrictness {
  match s {
    0 => MatchStrictness::Cst,
    1 => MatchStrictness::Smart,
    2 => MatchStrictness::Ast,
    3 => MatchStrictness::Relaxed,
    _ => MatchStrictness::Signature,
  }
}

// ---- the oracle (property text) -------------------------------------------------------

fn cand_skippable(c: &Leaf, s: u8) -> bool {
  match s {
    0 => false,
    1 | 2 => !c.named,
    _ => !c.named || c.kind == K_COMMENT,
  }
}
fn goal_skippable(g: G, goal: &Leaf, s: u8) -> bool {
  match g {
    G::Ell | G::EllCap => true,
    G::T => s >= 2 && !goal.named,
    G::CapAny => s >= 2,
    G::CapNamed => false,
  }
}
fn terminal_ok(goal: &Leaf, c: &Leaf, s: u8) -> bool {
  let kinds = goal.kind == c.kind || goal.kind == ERROR_KIND;
  kinds && (s == 4 || goal.text == c.text)
}
fn trailing_ok(c: &Leaf, s: u8) -> bool {
  s == 1 || cand_skippable(c, s)
}

/// does a legal alignment of goals[0..m) with cands[0..k) exist?
pub fn legal(gv: &[G], goals: &[Leaf; KMAX], m: usize, cands: &[Leaf; KMAX], k: usize, s: u8) -> bool {
  // l[i][j]: goals[i..] can be aligned with cands[j..]
  let mut l = [[false; KMAX + 1]; KMAX + 1];
  let mut j = KMAX + 1;
  while j > 0 {
    j -= 1;
    if j <= k {
      // all goals consumed: the rest is trailing
      let mut ok = true;
      let mut t = j;
      while t < KMAX {
        if t < k && !trailing_ok(&cands[t], s) {
          ok = false;
        }
        t += 1;
      }
      l[m][j] = ok;
    }
  }
  let mut i = m;
  while i > 0 {
    i -= 1;
    let mut j = KMAX + 1;
    while j > 0 {
      j -= 1;
      if j > k {
        continue;
      }
      let g = gv[i];
      let mut ok = false;
      match g {
        G::Ell | G::EllCap => {
          let mut t = j;
          while t <= KMAX {
            if t <= k && l[i + 1][t] {
              ok = true;
            }
            t += 1;
          }
        }
        G::T | G::CapNamed | G::CapAny => {
          if goal_skippable(g, &goals[i], s) && l[i + 1][j] {
            ok = true;
          }
          if j < k {
            let c = &cands[j];
            let m_ok = match g {
              G::T => terminal_ok(&goals[i], c, s),
              G::CapNamed => c.named,
              _ => true,
            };
            if m_ok && l[i + 1][j + 1] {
              ok = true;
            }
            if cand_skippable(c, s) && l[i][j + 1] {
              ok = true;
            }
          }
        }
      }
      l[i][j] = ok;
    }
  }
  l[0][0]
}

// ---- building the real pattern / candidate ---------------------------------------------

pub fn pattern_node(gv: &[G], goals: &[Leaf; KMAX], root_kind: u16) -> PatternNode {
  let mut children = Vec::with_capacity(gv.len());
  let mut i = 0;
  while i < gv.len() {
    let name = if i == 0 { "A" } else if i == 1 { "B" } else if i == 2 { "C" } else { "D" };
    children.push(match gv[i] {
      G::T => PatternNode::Terminal {
        text: as_str(&[goals[i].text], 1).to_string(),
        is_named: goals[i].named,
        kind_id: goals[i].kind,
      },
      G::CapNamed => PatternNode::MetaVar {
        meta_var: MetaVariable::Capture(name.to_string(), true),
      },
      G::CapAny => PatternNode::MetaVar {
        meta_var: MetaVariable::Capture(name.to_string(), false),
      },
      G::Ell => PatternNode::MetaVar {
        meta_var: MetaVariable::Multiple,
      },
      G::EllCap => PatternNode::MetaVar {
        meta_var: MetaVariable::MultiCapture(name.to_string()),
      },
    });
    i += 1;
  }
  PatternNode::Internal {
    kind_id: root_kind,
    children,
  }
}

/// a `Pattern` value with the given node and strictness (built from a throw-away
/// one-node parse because `root_kind`/`lang` are private fields)
pub fn make_pattern(node: PatternNode, s: u8) -> Pattern<HL> {
  let mut d = TreeData::empty();
  d.n = 1;
  d.nodes[0].end = 1;
  let g = mk_grep("x", d);
  let mut p = Pattern::from(g.root());
  p.node = node;
  p.strictness = strictness_of(s);
  std::mem::forget(g);
  p
}

/// candidate FLAT(k): root (kind `root_kind`) + k one-byte leaves
pub fn flat_tree(cands: &[Leaf; KMAX], k: usize, root_kind: u16, src: &mut [u8; KMAX]) -> TreeData {
  let mut parent = [0u8; MAXN];
  let _ = &mut parent;
  let mut d = TreeData::from_parents(k + 1, &parent);
  d.nodes[0].kind = root_kind;
  d.nodes[0].named = true;
  let mut i = 0;
  while i < KMAX {
    if i < k {
      d.nodes[i + 1].kind = cands[i].kind;
      d.nodes[i + 1].named = cands[i].named;
      src[i] = cands[i].text;
    }
    i += 1;
  }
  d.layout(&[1; MAXN], &[0; MAXN]);
  d.fix_named_counts();
  d
}

#[cfg(kani)]
pub fn any_leaf(allow_error: bool) -> Leaf {
  let kind: u16 = kani::any();
  kani::assume(
    kind == K_IDENT || kind == K_NUMBER || kind == K_COMMENT || kind == K_PUNCT_A || kind == K_PUNCT_B
      || (allow_error && kind == ERROR_KIND),
  );
  let named = kind_is_named(kind);
  let text: u8 = if named {
    if kani::any() { b'x' } else { b'y' }
  } else {
    anon_text(kind)
  };
  Leaf { kind, named, text }
}

#[cfg(test)]
mod tests {
  use super::*;
  fn leaf(kind: u16, text: u8) -> Leaf {
    Leaf { kind, named: kind_is_named(kind), text }
  }
  #[test]
  fn flat_match_smoke() {
    // pattern  x , $B     candidate  x , y
    let gv = [G::T, G::T, G::CapNamed];
    let mut goals = [leaf(K_IDENT, b'x'); KMAX];
    goals[1] = leaf(K_PUNCT_A, b',');
    let mut cands = [leaf(K_IDENT, b'x'); KMAX];
    cands[1] = leaf(K_PUNCT_A, b',');
    cands[2] = leaf(K_IDENT, b'y');
    for s in 0..5u8 {
      let pat = make_pattern(pattern_node(&gv, &goals, K_CALL), s);
      let mut src = [b' '; KMAX];
      let d = flat_tree(&cands, 3, K_CALL, &mut src);
      let g = mk_grep(as_str(&src, 3), d);
      let m = pat.match_node(g.root());
      assert!(m.is_some(), "strictness {s}");
      let m = m.unwrap();
      assert_eq!(m.get_env().get_match("C").unwrap().text(), "y");
      assert!(legal(&gv, &goals, 3, &cands, 3, s));
      assert_eq!(pat.get_match_len(g.root()), Some(3));
    }
    // named mismatch is illegal and unmatched
    cands[0] = leaf(K_IDENT, b'y');
    let pat = make_pattern(pattern_node(&gv, &goals, K_CALL), 1);
    let mut src = [b' '; KMAX];
    let d = flat_tree(&cands, 3, K_CALL, &mut src);
    let g = mk_grep(as_str(&src, 3), d);
    assert!(pat.match_node(g.root()).is_none());
    assert!(!legal(&gv, &goals, 3, &cands, 3, 1));
  }
}

#[cfg(kani)]
mod proofs {
  use super::*;

  fn setup(gv: &[G], kmax: usize) -> ([Leaf; KMAX], [Leaf; KMAX], usize, u8) {
    let m = gv.len();
    let s: u8 = kani::any();
    kani::assume(s < 5);
    let mut goals = [Leaf { kind: K_IDENT, named: true, text: b'x' }; KMAX];
    let mut cands = goals;
    let mut i = 0;
    while i < KMAX {
      if i < m && gv[i] == G::T {
        goals[i] = any_leaf(true);
      }
      if i < kmax {
        cands[i] = any_leaf(false);
      }
      i += 1;
    }
    let k: usize = kani::any();
    kani::assume(k <= kmax);
    (goals, cands, k, s)
  }

  /// soundness through the `ComputeEnd` instantiation (`Pattern::get_match_len`): the same
  /// alignment code without the meta-variable environment (no heap maps).
  /// `Some(len)` => a legal alignment exists, len <= node length, len ends at a child end.
  fn sound_len(gv: &[G], kmax: usize) {
    let (goals, cands, k, s) = setup(gv, kmax);
    let pat = make_pattern(pattern_node(gv, &goals, K_CALL), s);
    let mut src = [b' '; KMAX];
    let d = flat_tree(&cands, k, K_CALL, &mut src);
    let g = mk_grep(as_str(&src, k), d);
    let got = pat.get_match_len(g.root());
    let want = legal(gv, &goals, gv.len(), &cands, k, s);
    kani::cover!(got.is_some() && k == kmax);
    kani::cover!(got.is_some() && s == 0);
    kani::cover!(got.is_some() && s == 4 && k >= 2);
    kani::cover!(got.is_none() && want);
    if let Some(len) = got {
      assert!(want, "reported match has no legal alignment");
      // never exceeds the node, never splits a child (children are 1 byte wide here)
      assert!(len <= k);
    }
    std::mem::forget(pat);
    std::mem::forget(g);
  }

  /// soundness through the real `Cow<MetaVarEnv>` instantiation (`Pattern::match_node`)
  fn sound_env(gv: &[G], kmax: usize) {
    let (goals, cands, k, s) = setup(gv, kmax);
    let pat = make_pattern(pattern_node(gv, &goals, K_CALL), s);
    let mut src = [b' '; KMAX];
    let d = flat_tree(&cands, k, K_CALL, &mut src);
    let g = mk_grep(as_str(&src, k), d);
    let got = pat.match_node(g.root());
    let want = legal(gv, &goals, gv.len(), &cands, k, s);
    kani::cover!(got.is_some() && k == kmax);
    kani::cover!(got.is_none() && want);
    if got.is_some() {
      assert!(want, "reported match has no legal alignment");
    }
    std::mem::forget(got);
    std::mem::forget(pat);
    std::mem::forget(g);
  }

  #[kani::proof]
  #[kani::unwind(10)]
  fn c03_sound_len_t_cap_t_k3() {
    sound_len(&[G::T, G::CapNamed, G::T], 3);
  }

  #[kani::proof]
  #[kani::unwind(10)]
  fn c03_sound_env_t_cap_k2() {
    sound_env(&[G::T, G::CapNamed], 2);
  }
}
