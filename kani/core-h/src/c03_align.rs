//! C03 (soundness of reported matches) and C02 (holes match what they were cut from) on
//! flat sibling lists: the real `Pattern::match_node` / `get_match_len`
//! (`match_node_impl` <-> `match_nodes_impl_recursive` <-> `may_match_ellipsis_impl`,
//! `MatchStrictness::*`, `MetaVarEnv::insert*`) against an alignment oracle written from
//! the property text.
//!
//! Shape class FLAT(k): candidate = root + k leaf children; pattern = Internal root with a
//! *concrete variant vector* of children (Terminal / `$A` / `$$A` / `$$$` / `$$$A`), one
//! harness per variant vector; every label (kinds, texts, named bits), the number of
//! candidate children and the strictness are symbolic inside a harness.
use crate::common::*;
use ast_grep_core::matcher::{Matcher, MatcherExt, Pattern, PatternNode};
use ast_grep_core::meta_var::MetaVarEnv;
use ast_grep_core::verif_hooks::match_tree::{match_children_end, match_children_env};
use std::borrow::Cow;
use ast_grep_core::meta_var::MetaVariable;
use ast_grep_core::MatchStrictness;
use mock_ts::{kind_is_named, ERROR_KIND, K_CALL, K_COMMENT, K_IDENT, K_NUMBER, K_PUNCT_A, K_PUNCT_B};

pub const KMAX: usize = 4;

/// goal variants
#[derive(Clone, Copy, PartialEq, Eq, Debug)]
pub enum G {
  /// terminal with symbolic kind / text
  T,
  /// `$A`-style capture, named only
  CapNamed,
  /// `$$A`-style capture, any node
  CapAny,
  /// `$$$`
  Ell,
  /// `$$$A`
  EllCap,
}

#[derive(Clone, Copy, Debug)]
pub struct Leaf {
  pub kind: u16,
  pub named: bool,
  pub text: u8,
}

/// text of anonymous tokens is fixed by their kind (tree-sitter: an anonymous node's kind
/// *is* its literal text); named leaves carry a symbolic one-byte text
pub fn anon_text(kind: u16) -> u8 {
  if kind == K_PUNCT_A {
    b','
  } else {
    b';'
  }
}

pub fn strictness_of(s: u8) -> MatchStrictness {
  match s {
    0 => MatchStrictness::Cst,
    1 => MatchStrictness::Smart,
    2 => MatchStrictness::Ast,
    3 => MatchStrictness::Relaxed,
    _ => MatchStrictness::Signature,
  }
}

// ---- the oracle (property text) -------------------------------------------------------

fn cand_skippable(c: &Leaf, s: u8) -> bool {
  match s {
    0 => false,
    1 | 2 => !c.named,
    _ => !c.named || c.kind == K_COMMENT,
  }
}
fn goal_skippable(g: G, goal: &Leaf, s: u8) -> bool {
  match g {
    G::Ell | G::EllCap => true,
    G::T => s >= 2 && !goal.named,
    G::CapAny => s >= 2,
    G::CapNamed => false,
  }
}
fn terminal_ok(goal: &Leaf, c: &Leaf, s: u8) -> bool {
  let kinds = goal.kind == c.kind || goal.kind == ERROR_KIND;
  kinds && (s == 4 || goal.text == c.text)
}
fn trailing_ok(c: &Leaf, s: u8) -> bool {
  s == 1 || cand_skippable(c, s)
}

/// Known finding `ellipsis_skips_following_tokens` (known_findings.txt): unnamed pattern
/// tokens that directly follow a `$$$` are dropped without being matched, under every
/// strictness (`[$$$A,]` matches `[1]` even under cst).  While that finding is listed the
/// oracle tolerates exactly this class, so that any *other* unjustified match still fails.
pub const KF_ELLIPSIS_TOKENS: bool = cfg!(feature = "kf_ellipsis_skips_following_tokens");

/// does a legal alignment of goals[0..m) with cands[0..k) exist?
pub fn legal(gv: &[G], goals: &[Leaf; KMAX], m: usize, cands: &[Leaf; KMAX], k: usize, s: u8) -> bool {
  legal_with(gv, goals, m, cands, k, s, KF_ELLIPSIS_TOKENS)
}

pub fn legal_with(gv: &[G], goals: &[Leaf; KMAX], m: usize, cands: &[Leaf; KMAX], k: usize, s: u8, kf_ell: bool) -> bool {
  // after_ell[i]: goal i is an unnamed token separated from a preceding ellipsis only by
  // other unnamed tokens
  let mut after_ell = [false; KMAX];
  let mut i = 1;
  while i < m {
    if gv[i] == G::T && !goals[i].named {
      let prev_ell = matches!(gv[i - 1], G::Ell | G::EllCap);
      after_ell[i] = prev_ell || after_ell[i - 1];
    }
    i += 1;
  }
  // l[i][j]: goals[i..] can be aligned with cands[j..]
  let mut l = [[false; KMAX + 1]; KMAX + 1];
  let mut j = KMAX + 1;
  while j > 0 {
    j -= 1;
    if j <= k {
      // all goals consumed: the rest is trailing
      let mut ok = true;
      let mut t = j;
      while t < KMAX {
        if t < k && !trailing_ok(&cands[t], s) {
          ok = false;
        }
        t += 1;
      }
      l[m][j] = ok;
    }
  }
  let mut i = m;
  while i > 0 {
    i -= 1;
    let mut j = KMAX + 1;
    while j > 0 {
      j -= 1;
      if j > k {
        continue;
      }
      let g = gv[i];
      let mut ok = false;
      match g {
        G::Ell | G::EllCap => {
          let mut t = j;
          while t <= KMAX {
            if t <= k && l[i + 1][t] {
              ok = true;
            }
            t += 1;
          }
        }
        G::T | G::CapNamed | G::CapAny => {
          if (goal_skippable(g, &goals[i], s) || (kf_ell && after_ell[i])) && l[i + 1][j] {
            ok = true;
          }
          if j < k {
            let c = &cands[j];
            let m_ok = match g {
              G::T => terminal_ok(&goals[i], c, s),
              G::CapNamed => c.named,
              _ => true,
            };
            if m_ok && l[i + 1][j + 1] {
              ok = true;
            }
            if cand_skippable(c, s) && l[i][j + 1] {
              ok = true;
            }
          }
        }
      }
      l[i][j] = ok;
    }
  }
  l[0][0]
}

// ---- building the real pattern / candidate ---------------------------------------------

pub fn pattern_node(gv: &[G], goals: &[Leaf; KMAX], root_kind: u16) -> PatternNode {
  pattern_node_w(gv, goals, root_kind, 1)
}

/// just the pattern's children (for the `match_children_*` hooks)
pub fn goal_list(gv: &[G], goals: &[Leaf; KMAX], w: usize) -> Vec<PatternNode> {
  match pattern_node_w(gv, goals, K_CALL, w) {
    PatternNode::Internal { children, .. } => children,
    _ => unreachable!(),
  }
}

/// like `pattern_node`, terminals' text is the leaf byte repeated `w` times
pub fn pattern_node_w(gv: &[G], goals: &[Leaf; KMAX], root_kind: u16, w: usize) -> PatternNode {
  let mut children = Vec::with_capacity(gv.len());
  let mut i = 0;
  while i < gv.len() {
    let name = if i == 0 { "A" } else if i == 1 { "B" } else if i == 2 { "C" } else { "D" };
    children.push(match gv[i] {
      G::T => PatternNode::Terminal {
        text: as_str(&[goals[i].text, goals[i].text], w).to_string(),
        is_named: goals[i].named,
        kind_id: goals[i].kind,
      },
      G::CapNamed => PatternNode::MetaVar {
        meta_var: MetaVariable::Capture(name.to_string(), true),
      },
      G::CapAny => PatternNode::MetaVar {
        meta_var: MetaVariable::Capture(name.to_string(), false),
      },
      G::Ell => PatternNode::MetaVar {
        meta_var: MetaVariable::Multiple,
      },
      G::EllCap => PatternNode::MetaVar {
        meta_var: MetaVariable::MultiCapture(name.to_string()),
      },
    });
    i += 1;
  }
  PatternNode::Internal {
    kind_id: root_kind,
    children,
  }
}

/// a `Pattern` value with the given node and strictness (built from a throw-away
/// one-node parse because `root_kind`/`lang` are private fields)
pub fn make_pattern(node: PatternNode, s: u8) -> Pattern<HL> {
  let mut d = TreeData::empty();
  d.n = 1;
  d.nodes[0].end = 1;
  let g = mk_grep("x", d);
  let mut p = Pattern::from(g.root());
  p.node = node;
  p.strictness = strictness_of(s);
  std::mem::forget(g);
  p
}

/// candidate FLAT(k): root (kind `root_kind`) + k one-byte leaves
pub fn flat_tree(cands: &[Leaf; KMAX], k: usize, root_kind: u16, src: &mut [u8; KMAX]) -> TreeData {
  let mut wide = [b' '; 2 * KMAX];
  let d = flat_tree_w(cands, k, root_kind, &mut wide, 1);
  let mut i = 0;
  while i < KMAX {
    src[i] = wide[i];
    i += 1;
  }
  d
}

/// candidate FLAT(k) whose leaves are `w` bytes wide (the leaf byte repeated)
pub fn flat_tree_w(cands: &[Leaf; KMAX], k: usize, root_kind: u16, src: &mut [u8; 2 * KMAX], w: usize) -> TreeData {
  let mut parent = [0u8; MAXN];
  let _ = &mut parent;
  let mut d = TreeData::from_parents(k + 1, &parent);
  d.nodes[0].kind = root_kind;
  d.nodes[0].named = true;
  let mut i = 0;
  while i < KMAX {
    if i < k {
      d.nodes[i + 1].kind = cands[i].kind;
      d.nodes[i + 1].named = cands[i].named;
      let mut b = 0;
      while b < w {
        src[i * w + b] = cands[i].text;
        b += 1;
      }
    }
    i += 1;
  }
  d.layout(&[w as u8; MAXN], &[0; MAXN]);
  d.fix_named_counts();
  d
}

#[cfg(kani)]
pub fn any_leaf(allow_error: bool) -> Leaf {
  let kind: u16 = kani::any();
  kani::assume(
    kind == K_IDENT || kind == K_NUMBER || kind == K_COMMENT || kind == K_PUNCT_A || kind == K_PUNCT_B
      || (allow_error && kind == ERROR_KIND),
  );
  let named = kind_is_named(kind);
  let text: u8 = if named {
    if kani::any() { b'x' } else { b'y' }
  } else {
    anon_text(kind)
  };
  Leaf { kind, named, text }
}

#[cfg(test)]
mod tests {
  use super::*;
  fn leaf(kind: u16, text: u8) -> Leaf {
    Leaf { kind, named: kind_is_named(kind), text }
  }
  #[test]
  fn flat_match_smoke() {
    // pattern  x , $B     candidate  x , y
    let gv = [G::T, G::T, G::CapNamed];
    let mut goals = [leaf(K_IDENT, b'x'); KMAX];
    goals[1] = leaf(K_PUNCT_A, b',');
    let mut cands = [leaf(K_IDENT, b'x'); KMAX];
    cands[1] = leaf(K_PUNCT_A, b',');
    cands[2] = leaf(K_IDENT, b'y');
    for s in 0..5u8 {
      let pat = make_pattern(pattern_node(&gv, &goals, K_CALL), s);
      let mut src = [b' '; KMAX];
      let d = flat_tree(&cands, 3, K_CALL, &mut src);
      let g = mk_grep(as_str(&src, 3), d);
      let m = pat.match_node(g.root());
      assert!(m.is_some(), "strictness {s}");
      let m = m.unwrap();
      assert_eq!(m.get_env().get_match("C").unwrap().text(), "y");
      assert!(legal(&gv, &goals, 3, &cands, 3, s));
      assert_eq!(pat.get_match_len(g.root()), Some(3));
    }
    // named mismatch is illegal and unmatched
    cands[0] = leaf(K_IDENT, b'y');
    let pat = make_pattern(pattern_node(&gv, &goals, K_CALL), 1);
    let mut src = [b' '; KMAX];
    let d = flat_tree(&cands, 3, K_CALL, &mut src);
    let g = mk_grep(as_str(&src, 3), d);
    assert!(pat.match_node(g.root()).is_none());
    assert!(!legal(&gv, &goals, 3, &cands, 3, 1));
  }

  /// native sweep validating the terminals-only oracle: every pair of goal leaves x every
  /// candidate list of 2 or 3 leaves x 5 strictness levels
  #[test]
  fn tt_native_sweep() {
    let mut vals = Vec::new();
    for kind in [K_IDENT, K_NUMBER, K_COMMENT, K_PUNCT_A, K_PUNCT_B] {
      if kind_is_named(kind) {
        vals.push(leaf(kind, b'x'));
        vals.push(leaf(kind, b'y'));
      } else {
        vals.push(leaf(kind, anon_text(kind)));
      }
    }
    let gv = [G::T, G::T];
    let (mut unsound, mut incomplete, mut total) = (0, 0, 0);
    for g0 in &vals { for g1 in &vals {
      let mut goals = [*g0; KMAX];
      goals[1] = *g1;
      for k in 2..=3usize {
        let n = vals.len();
        let combos = n.pow(k as u32);
        for c in 0..combos {
          let mut cands = [vals[0]; KMAX];
          let mut cc = c;
          for i in 0..k { cands[i] = vals[cc % n]; cc /= n; }
          for s in 0..5u8 {
            let gl = goal_list(&gv, &goals, 2);
            let mut src = [b' '; 2 * KMAX];
            let d = flat_tree_w(&cands, k, K_CALL, &mut src, 2);
            let g = mk_grep(as_str(&src, 2 * k), d);
            let got = match_children_end(&gl, &g.root(), &strictness_of(s)).is_some();
            let want = legal(&gv, &goals, 2, &cands, k, s);
            total += 1;
            if got && !want { unsound += 1; if unsound <= 5 { println!("UNSOUND g={:?},{:?} c={:?} s={s}", g0, g1, &cands[..k]); } }
            if !got && want { incomplete += 1; }
          }
        }
      }
    }}
    println!("total {total} unsound {unsound} incomplete {incomplete}");
    assert_eq!(unsound, 0);
  }
}

#[cfg(kani)]
mod proofs {
  use super::*;

  /// labels symbolic; the *number* of candidates `k` is concrete per call (harnesses loop
  /// over k): with a concrete shape every byte range is a constant and the string
  /// comparisons inside the matcher have literal lengths
  fn setup(gv: &[G], k: usize) -> ([Leaf; KMAX], [Leaf; KMAX], u8) {
    let m = gv.len();
    let s: u8 = kani::any();
    kani::assume(s < 5);
    let mut goals = [Leaf { kind: K_IDENT, named: true, text: b'x' }; KMAX];
    let mut cands = goals;
    let mut i = 0;
    while i < KMAX {
      if i < m && gv[i] == G::T {
        goals[i] = any_leaf(true);
      }
      if i < k {
        cands[i] = any_leaf(false);
      }
      i += 1;
    }
    (goals, cands, s)
  }

  /// the length clause (`ComputeEnd` instantiation of the alignment, reached by
  /// `Pattern::get_match_len`): a reported end offset never exceeds the node and is the
  /// end of a child (children are 2 bytes wide here, so: even and <= 2k).
  /// NB this aggregator is *not* a soundness oracle for matches: it does not check `$A`'s
  /// named-only restriction (it is only consulted for nodes that matched).
  fn len_bound(gv: &[G], k: usize) {
    let (goals, cands, s) = setup(gv, k);
    let gl = goal_list(gv, &goals, 2);
    let mut src = [b' '; 2 * KMAX];
    let d = flat_tree_w(&cands, k, K_CALL, &mut src, 2);
    let g = mk_grep(as_str(&src, 2 * k), d);
    let got = match_children_end(&gl, &g.root(), &strictness_of(s));
    if k == gv.len() {
      kani::cover!(got == Some(2 * k));
      kani::cover!(matches!(got, Some(l) if l < 2 * k));
    }
    if let Some(end) = got {
      assert!(end <= 2 * k && end % 2 == 0, "match length exceeds the node or splits a child");
    }
    std::mem::forget(gl);
    std::mem::forget(g);
  }

  /// soundness of the sibling alignment with the real `Cow<MetaVarEnv>` aggregator
  /// (`match_nodes_impl_recursive` driven through hook H2, i.e. what `Pattern::match_node`
  /// runs for an `Internal` pattern node once the root kinds agree)
  fn sound_env(gv: &[G], k: usize) {
    let (goals, cands, s) = setup(gv, k);
    let gl = goal_list(gv, &goals, 1);
    let mut src = [b' '; KMAX];
    let d = flat_tree(&cands, k, K_CALL, &mut src);
    let g = mk_grep(as_str(&src, k), d);
    let mut env = Cow::Owned(MetaVarEnv::new());
    let got = match_children_env(&gl, &g.root(), &mut env, &strictness_of(s));
    let want = legal(gv, &goals, gv.len(), &cands, k, s);
    if k == gv.len() {
      kani::cover!(got);
      kani::cover!(!got && want);
    }
    if got {
      assert!(want, "reported match has no legal alignment");
    }
    std::mem::forget(env);
    std::mem::forget(gl);
    std::mem::forget(g);
  }

  /// terminals only, concrete strictness: with no meta variable among the goals the
  /// `ComputeEnd` aggregator is a faithful acceptance test, so this is the soundness clause
  /// of the sibling alignment itself (`match_nodes_impl_recursive`,
  /// `match_single_node_while_skip_trivial`, trailing check) for one strictness level
  fn tt_sound(gv: &[G], k: usize, s: u8) {
    let m = gv.len();
    let mut goals = [Leaf { kind: K_IDENT, named: true, text: b'x' }; KMAX];
    let mut cands = goals;
    let mut i = 0;
    while i < KMAX {
      if i < m {
        goals[i] = any_leaf(false);
      }
      if i < k {
        cands[i] = any_leaf(false);
      }
      i += 1;
    }
    let gl = goal_list(gv, &goals, 2);
    let mut src = [b' '; 2 * KMAX];
    let d = flat_tree_w(&cands, k, K_CALL, &mut src, 2);
    let g = mk_grep(as_str(&src, 2 * k), d);
    let got = match_children_end(&gl, &g.root(), &strictness_of(s)).is_some();
    let want = legal(gv, &goals, m, &cands, k, s);
    kani::cover!(got);
    kani::cover!(!got);
    if got {
      assert!(want, "reported match has no legal alignment");
    }
    std::mem::forget(gl);
    std::mem::forget(g);
  }
  /// concrete goals `x ,` (named leaf then unnamed token -- the "trailing separator" layout),
  /// symbolic candidates, concrete strictness
  fn sep_sound(k: usize, s: u8) {
    let gv = [G::T, G::T];
    let mut goals = [Leaf { kind: K_IDENT, named: true, text: b'x' }; KMAX];
    goals[1] = Leaf { kind: K_PUNCT_A, named: false, text: anon_text(K_PUNCT_A) };
    let mut cands = goals;
    let mut i = 0;
    while i < KMAX {
      if i < k {
        cands[i] = any_leaf(false);
      }
      i += 1;
    }
    let gl = goal_list(&gv, &goals, 2);
    let mut src = [b' '; 2 * KMAX];
    let d = flat_tree_w(&cands, k, K_CALL, &mut src, 2);
    let g = mk_grep(as_str(&src, 2 * k), d);
    let got = match_children_end(&gl, &g.root(), &strictness_of(s)).is_some();
    let want = legal(&gv, &goals, 2, &cands, k, s);
    kani::cover!(got);
    kani::cover!(!got);
    if got {
      assert!(want, "reported match has no legal alignment");
    }
    std::mem::forget(gl);
    std::mem::forget(g);
  }
  #[kani::proof]
  #[kani::unwind(8)]
  fn c03_sep_ast_k2() {
    sep_sound(2, 2);
  }
  #[kani::proof]
  #[kani::unwind(8)]
  fn c03_sep_relaxed_k2() {
    sep_sound(2, 3);
  }

  /// concrete kind layout on both sides, symbolic *texts* of the named leaves, symbolic
  /// strictness: the control flow of the alignment then depends on few symbolic bits
  fn layout_sound(goal_kinds: &[u16], cand_kinds: &[u16]) {
    let s: u8 = kani::any();
    kani::assume(s < 5);
    layout_sound_at(goal_kinds, cand_kinds, s);
  }
  fn layout_sound_at(goal_kinds: &[u16], cand_kinds: &[u16], s: u8) {
    let m = goal_kinds.len();
    let k = cand_kinds.len();
    let gv = [G::T, G::T, G::T];
    let mut goals = [Leaf { kind: K_IDENT, named: true, text: b'x' }; KMAX];
    let mut cands = goals;
    let mut i = 0;
    while i < KMAX {
      if i < m {
        let kd = goal_kinds[i];
        let named = kind_is_named(kd);
        goals[i] = Leaf { kind: kd, named, text: if named { if kani::any() { b'x' } else { b'y' } } else { anon_text(kd) } };
      }
      if i < k {
        let kd = cand_kinds[i];
        let named = kind_is_named(kd);
        cands[i] = Leaf { kind: kd, named, text: if named { if kani::any() { b'x' } else { b'y' } } else { anon_text(kd) } };
      }
      i += 1;
    }
    let gl = goal_list(&gv[..m], &goals, 2);
    let mut src = [b' '; 2 * KMAX];
    let d = flat_tree_w(&cands, k, K_CALL, &mut src, 2);
    let g = mk_grep(as_str(&src, 2 * k), d);
    let got = match_children_end(&gl, &g.root(), &strictness_of(s)).is_some();
    let want = legal(&gv[..m], &goals, m, &cands, k, s);
    kani::cover!(got);
    kani::cover!(!got);
    if got {
      assert!(want, "reported match has no legal alignment");
    }
    std::mem::forget(gl);
    std::mem::forget(g);
  }
  #[kani::proof]
  #[kani::unwind(8)]
  fn c03_layc_sep_vs_two_named_ast() {
    layout_sound_at(&[K_IDENT, K_PUNCT_A], &[K_IDENT, K_IDENT], 2);
  }
  macro_rules! layout_harness {
    ($name:ident, [$($g:expr),*], [$($c:expr),*]) => {
      #[kani::proof]
      #[kani::unwind(8)]
      fn $name() {
        layout_sound(&[$($g),*], &[$($c),*]);
      }
    };
  }
  // `x ,` against `x y`: a trailing separator in the pattern, an extra named sibling in the code
  layout_harness!(c03_lay_sep_vs_two_named, [K_IDENT, K_PUNCT_A], [K_IDENT, K_IDENT]);
  // `x ,` against `x , y`
  layout_harness!(c03_lay_sep_vs_sep_named, [K_IDENT, K_PUNCT_A], [K_IDENT, K_PUNCT_A, K_IDENT]);
  // `x y` against `x // y`
  layout_harness!(c03_lay_two_vs_comment_between, [K_IDENT, K_IDENT], [K_IDENT, K_COMMENT, K_IDENT]);
  // `x` against `x ,` and `, x`
  layout_harness!(c03_lay_one_vs_trailing_tok, [K_IDENT], [K_IDENT, K_PUNCT_A]);
  layout_harness!(c03_lay_one_vs_leading_tok, [K_IDENT], [K_PUNCT_A, K_IDENT]);
  // `, x` against `x`
  layout_harness!(c03_lay_tok_first_vs_one, [K_PUNCT_A, K_IDENT], [K_IDENT]);

  macro_rules! tt_harness {
    ($name:ident, [$($g:expr),*], $k:expr, $s:expr) => {
      #[kani::proof]
      #[kani::unwind(8)]
      fn $name() {
        tt_sound(&[$($g),*], $k, $s);
      }
    };
  }
  tt_harness!(c03_tt_ast_k2, [G::T, G::T], 2, 2);
  tt_harness!(c03_tt_smart_k2, [G::T, G::T], 2, 1);
  tt_harness!(c03_tt_ast_k3, [G::T, G::T], 3, 2);
  tt_harness!(c03_tt_relaxed_k3, [G::T, G::T], 3, 3);
  tt_harness!(c03_tt_cst_k2, [G::T, G::T], 2, 0);
  tt_harness!(c03_tt_signature_k2, [G::T, G::T], 2, 4);

  /// one harness per (goal variant vector, number of candidate children): the symbolic
  /// execution is single-threaded, the machine has 16 cores
  macro_rules! align_harness {
    ($name:ident, $f:ident, [$($g:expr),*], $k:expr) => {
      #[kani::proof]
      #[kani::unwind(8)]
      fn $name() {
        $f(&[$($g),*], $k);
      }
    };
  }
  align_harness!(c03_len_t_cap_t_k2, len_bound, [G::T, G::CapNamed, G::T], 2);
  align_harness!(c03_len_t_cap_t_k3, len_bound, [G::T, G::CapNamed, G::T], 3);
  align_harness!(c03_len_ell_t_k2, len_bound, [G::T, G::Ell, G::T], 2);
  align_harness!(c03_env_t_cap_k1, sound_env, [G::T, G::CapNamed], 1);
  align_harness!(c03_env_t_cap_k2, sound_env, [G::T, G::CapNamed], 2);
  align_harness!(c03_env_t_cap_t_k2, sound_env, [G::T, G::CapNamed, G::T], 2);
  align_harness!(c03_env_t_cap_t_k3, sound_env, [G::T, G::CapNamed, G::T], 3);
  align_harness!(c03_env_t_t_k2, sound_env, [G::T, G::T], 2);
  align_harness!(c03_env_t_t_k3, sound_env, [G::T, G::T], 3);
  align_harness!(c03_env_ell_t_k2, sound_env, [G::Ell, G::T], 2);
  align_harness!(c03_env_t_ell_t_k3, sound_env, [G::T, G::EllCap, G::T], 3);
  align_harness!(c03_env_capany_t_k2, sound_env, [G::CapAny, G::T], 2);
}
