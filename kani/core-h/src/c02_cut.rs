//! C02-L2 `cut_and_match_FLAT`: a pattern obtained from a flat sibling list by replacing
//! named children with distinct `$VAR` holes, or a trailing run with `$$$VAR`, matches that
//! list at every strictness, and binds each hole to exactly what it replaced.
//! (Premise "the pattern parses to the same tree shape" is assumed, as the property does:
//! the harness builds the pattern tree from the candidate's own labels.)
use crate::c03_align::*;
use crate::common::*;
use ast_grep_core::matcher::{MatcherExt, PatternNode};
use ast_grep_core::meta_var::MetaVarEnv;
use ast_grep_core::verif_hooks::match_tree::match_children_env;
use std::borrow::Cow;
use ast_grep_core::meta_var::MetaVariable;
use mock_ts::K_CALL;

/// pattern children: copy of the candidate leaves, with holes where `hole[i]`, and a
/// trailing `$$$E` from `ell_from` on
pub fn cut_pattern(cands: &[Leaf; KMAX], k: usize, hole: &[bool; KMAX], ell_from: usize) -> PatternNode {
  let mut children = Vec::with_capacity(k);
  let mut i = 0;
  while i < k && i < ell_from {
    let name = if i == 0 { "A" } else if i == 1 { "B" } else if i == 2 { "C" } else { "D" };
    if hole[i] {
      children.push(PatternNode::MetaVar {
        meta_var: MetaVariable::Capture(name.to_string(), true),
      });
    } else {
      children.push(PatternNode::Terminal {
        text: as_str(&[cands[i].text], 1).to_string(),
        is_named: cands[i].named,
        kind_id: cands[i].kind,
      });
    }
    i += 1;
  }
  if ell_from < k {
    children.push(PatternNode::MetaVar {
      meta_var: MetaVariable::MultiCapture("E".to_string()),
    });
  }
  PatternNode::Internal {
    kind_id: K_CALL,
    children,
  }
}

/// run one cut; returns Err(reason code) on a property violation.
/// The sibling alignment is driven through hook H2 (`match_nodes_impl_recursive`, what
/// `Pattern::match_node` runs below an `Internal` pattern node whose kind agrees).
pub fn check_cut(cands: &[Leaf; KMAX], k: usize, hole: &[bool; KMAX], ell_from: usize, s: u8) -> Result<(), u8> {
  let gl = match cut_pattern(cands, k, hole, ell_from) {
    PatternNode::Internal { children, .. } => children,
    _ => unreachable!(),
  };
  let mut src = [b' '; KMAX];
  let d = flat_tree(cands, k, K_CALL, &mut src);
  let g = mk_grep(as_str(&src, k), d);
  let mut env = Cow::Owned(MetaVarEnv::new());
  let res = (|| {
    if !match_children_env(&gl, &g.root(), &mut env, &strictness_of(s)) {
      return Err(1);
    }
    let mut i = 0;
    while i < k && i < ell_from {
      if hole[i] {
        let name = if i == 0 { "A" } else if i == 1 { "B" } else if i == 2 { "C" } else { "D" };
        match env.get_match(name) {
          Some(n) if n.node_id() == i + 2 => {}
          _ => return Err(2),
        }
      }
      i += 1;
    }
    if ell_from < k {
      let multi = env.get_multiple_matches("E");
      if multi.len() != k - ell_from {
        return Err(3);
      }
      let mut j = 0;
      while j < multi.len() {
        if multi[j].node_id() != ell_from + j + 2 {
          return Err(4);
        }
        j += 1;
      }
      std::mem::forget(multi);
    }
    Ok(())
  })();
  std::mem::forget(env);
  std::mem::forget(gl);
  std::mem::forget(g);
  res
}

#[cfg(test)]
mod tests {
  use super::*;
  use mock_ts::{kind_is_named, K_IDENT, K_PUNCT_A};
  #[test]
  fn smoke() {
    let leaf = |kind: u16, text: u8| Leaf { kind, named: kind_is_named(kind), text };
    let mut cands = [leaf(K_IDENT, b'x'); KMAX];
    cands[1] = leaf(K_PUNCT_A, b',');
    cands[2] = leaf(K_IDENT, b'y');
    for s in 0..5u8 {
      assert_eq!(check_cut(&cands, 3, &[false; KMAX], 9, s), Ok(()), "self match s={s}");
      assert_eq!(check_cut(&cands, 3, &[true, false, true, false], 9, s), Ok(()));
      assert_eq!(check_cut(&cands, 3, &[false; KMAX], 1, s), Ok(()));
      assert_eq!(check_cut(&cands, 3, &[true, false, false, false], 2, s), Ok(()));
    }
  }
}

#[cfg(kani)]
mod proofs {
  use super::*;

  /// concrete k, hole mask and ellipsis position; symbolic labels and strictness
  fn cut(k: usize, mask: u8, ell_from: usize) {
    let s: u8 = kani::any();
    kani::assume(s < 5);
    let mut cands = [Leaf { kind: mock_ts::K_IDENT, named: true, text: b'x' }; KMAX];
    let mut hole = [false; KMAX];
    let mut i = 0;
    while i < KMAX {
      if i < k {
        cands[i] = any_leaf(false);
        if mask & (1 << i) != 0 && i < ell_from {
          // only named sub-expressions are replaced by `$VAR`
          kani::assume(cands[i].named);
          hole[i] = true;
        }
      }
      i += 1;
    }
    let r = check_cut(&cands, k, &hole, ell_from, s);
    kani::cover!(r.is_ok() && s == 0);
    kani::cover!(r.is_ok() && s == 3);
    assert!(r.is_ok(), "code with holes must match the code it was cut from");
  }

  macro_rules! cut_harness {
    ($name:ident, $k:expr, $mask:expr, $ell:expr) => {
      #[kani::proof]
      #[kani::unwind(8)]
      fn $name() {
        cut($k, $mask, $ell);
      }
    };
  }
  // self match (no hole), k = 1..3
  cut_harness!(c02_self_k1, 1, 0, 9);
  cut_harness!(c02_self_k2, 2, 0, 9);
  cut_harness!(c02_self_k3, 3, 0, 9);
  // single holes
  cut_harness!(c02_hole0_k2, 2, 0b01, 9);
  cut_harness!(c02_hole1_k2, 2, 0b10, 9);
  cut_harness!(c02_hole01_k2, 2, 0b11, 9);
  cut_harness!(c02_hole1_k3, 3, 0b010, 9);
  cut_harness!(c02_hole02_k3, 3, 0b101, 9);
  // trailing ellipsis
  cut_harness!(c02_ell0_k2, 2, 0, 0);
  cut_harness!(c02_ell1_k2, 2, 0, 1);
  cut_harness!(c02_ell1_k3, 3, 0, 1);
  cut_harness!(c02_hole0_ell2_k3, 3, 0b001, 2);
}

#[cfg(test)]
mod explore {
  use super::*;
  use mock_ts::{kind_is_named, ERROR_KIND, K_COMMENT, K_IDENT, K_NUMBER, K_PUNCT_A, K_PUNCT_B};
  fn leaves(allow_error: bool) -> Vec<Leaf> {
    let mut v = vec![];
    for kind in [K_IDENT, K_NUMBER, K_COMMENT, K_PUNCT_A, K_PUNCT_B, ERROR_KIND] {
      if kind == ERROR_KIND && !allow_error {
        continue;
      }
      if kind_is_named(kind) {
        for t in [b'x', b'y'] {
          v.push(Leaf { kind, named: true, text: t });
        }
      } else {
        v.push(Leaf { kind, named: false, text: anon_text(kind) });
      }
    }
    v
  }
  /// native exhaustive sanity run of the C02 and C03 oracles (not part of any check)
  #[test]
  #[ignore]
  fn brute() {
    use ast_grep_core::matcher::{Matcher, MatcherExt};
    let ls = leaves(false);
    let mut bad = 0;
    for k in 1..=3usize {
      let n = ls.len();
      for code in 0..n.pow(k as u32) {
        let mut cands = [ls[0]; KMAX];
        let mut c = code;
        for i in 0..k {
          cands[i] = ls[c % n];
          c /= n;
        }
        for s in 0..5u8 {
          for mask in 0..(1u8 << k) {
            let mut hole = [false; KMAX];
            let mut ok = true;
            for i in 0..k {
              if mask & (1 << i) != 0 {
                if !cands[i].named { ok = false; }
                hole[i] = true;
              }
            }
            if !ok { continue; }
            for ell in (0..=k).chain([9usize]) {
              if let Err(e) = check_cut(&cands, k, &hole, ell, s) {
                bad += 1;
                if bad <= 10 {
                  println!("C02 FAIL e={e} k={k} s={s} mask={mask:b} ell={ell} cands={:?}", cands[..k].iter().map(|l| (l.kind, l.text as char)).collect::<Vec<_>>());
                }
              }
            }
          }
        }
      }
    }
    println!("C02 bad = {bad}");
    // C03 soundness: all goal vectors of length <= 3 over variants, all labels
    let gl = leaves(true);
    let mut bad3 = 0;
    let variants = [G::T, G::CapNamed, G::CapAny, G::Ell, G::EllCap];
    for m in 1..=3usize {
      for vcode in 0..variants.len().pow(m as u32) {
        let mut gv = vec![];
        let mut c = vcode;
        for _ in 0..m { gv.push(variants[c % variants.len()]); c /= variants.len(); }
        // goal terminal labels: sample all
        let nt = gv.iter().filter(|g| **g == G::T).count();
        for gcode in 0..gl.len().pow(nt as u32) {
          let mut goals = [gl[0]; KMAX];
          let mut c = gcode;
          for i in 0..m { if gv[i] == G::T { goals[i] = gl[c % gl.len()]; c /= gl.len(); } }
          for k in 0..=3usize {
            let n = ls.len();
            for code in 0..n.pow(k as u32) {
              let mut cands = [ls[0]; KMAX];
              let mut c = code;
              for i in 0..k { cands[i] = ls[c % n]; c /= n; }
              for s in 0..5u8 {
                let pat = make_pattern(pattern_node(&gv, &goals, K_CALL), s);
                let mut src = [b' '; KMAX];
                let d = flat_tree(&cands, k, K_CALL, &mut src);
                let g = mk_grep(as_str(&src, k), d);
                let got = pat.match_node(g.root()).is_some();
                let len = pat.get_match_len(g.root());
                let want = legal_with(&gv, &goals, m, &cands, k, s, true);
                if (got && !want) || len.map_or(false, |l| l > k) {
                  bad3 += 1;
                  if bad3 <= 15 {
                    println!("C03 FAIL gv={gv:?} goals={:?} cands={:?} s={s} got={got} len={len:?}", goals[..m].iter().map(|l| (l.kind, l.text as char)).collect::<Vec<_>>(), cands[..k].iter().map(|l| (l.kind, l.text as char)).collect::<Vec<_>>());
                  }
                }
              }
            }
          }
        }
      }
    }
    println!("C03 bad = {bad3}");
  }
}
