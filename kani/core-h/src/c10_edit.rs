//! C10 `input_edit_exact`: `AstGrep::edit` -> `Root::do_edit` -> `perform_edit` ->
//! `String::accept_edit` / `position_for_offset`.  tree-sitter's contract for incremental
//! parsing: the old tree must be told about the text change through `Tree::edit`, with an
//! `InputEdit` that describes it exactly, exactly once, before it is handed to
//! `Parser::parse`.  That "if" is the whole responsibility of the Rust side and is what
//! this harness decides; the incremental parser itself is outside the claim.
use crate::common::*;
use ast_grep_core::source::Edit;
use mock_ts::{point_of, InputEdit, Point};

#[cfg(test)]
mod tests {
  use super::*;
  #[test]
  fn edit_once() {
    mock_ts::reset_queue();
    let src = "a\nbc";
    let mut g = mk_grep(src, single_node(src.as_bytes(), 0, 4));
    mock_ts::push_tree(single_node(b"a\nxyc", 0, 5));
    g.edit(Edit::<String> { position: 2, deleted_length: 1, inserted_text: b"xy".to_vec() }).unwrap();
    assert_eq!(g.source(), "a\nxyc");
    unsafe {
      assert!(mock_ts::LAST_PARSE_HAD_OLD);
      let e = mock_ts::LAST_PARSE_OLD_EDIT.unwrap();
      assert_eq!((e.start_byte, e.old_end_byte, e.new_end_byte), (2, 3, 4));
      assert_eq!(e.start_position, Point::new(1, 0));
      assert_eq!(e.new_end_position, Point::new(1, 2));
    }
  }
}

#[cfg(kani)]
mod proofs {
  use super::*;

  /// one size class: text length, edit position, deleted length and inserted length are
  /// concrete (heap containers with symbolic *sizes* exhaust the SAT back end: a first
  /// version with symbolic sizes ran out of 24 GB); the *contents* of the text and of the
  /// inserted bytes stay symbolic, so row/column bookkeeping is decided for every text.
  fn one_case(len: usize, pos: usize, del: usize, ilen: usize, multibyte: bool) {
    mock_ts::reset_queue();
    let mut buf = [b'a'; 4];
    let mut i = 0;
    while i < 4 {
      if i < len && kani::any() {
        buf[i] = b'\n';
      }
      i += 1;
    }
    let mut ins = [b'b'; 2];
    let mut i = 0;
    while i < 2 {
      if !multibyte && i < ilen && kani::any() {
        ins[i] = b'\n';
      }
      i += 1;
    }
    // the inserted text is one two-byte character (byte counts != char counts); concrete, so
    // that any UTF-8 decoding the code under test does on it folds
    if multibyte {
      ins = [0xC3, 0xA9];
    }
    let old = as_str(&buf, len);
    let mut g = mk_grep(old, single_node(&buf[..len], 0, len as u32));
    let mut t2 = TreeData::empty();
    t2.n = 1;
    mock_ts::push_tree(t2);
    let r = g.edit(Edit::<String> {
      position: pos,
      deleted_length: del,
      inserted_text: ins[..ilen].to_vec(),
    });
    assert!(r.is_ok());
    // new text = splice
    let new = g.source().as_bytes();
    assert!(new.len() == len - del + ilen);
    let mut i = 0;
    while i < 6 {
      if i < new.len() {
        let want = if i < pos {
          buf[i]
        } else if i < pos + ilen {
          ins[i - pos]
        } else {
          buf[i - ilen + del]
        };
        assert!(new[i] == want);
      }
      i += 1;
    }
    // the InputEdit the old tree received
    let (had_old, n_edits, edit) = unsafe {
      (mock_ts::LAST_PARSE_HAD_OLD, mock_ts::LAST_PARSE_OLD_EDITS, mock_ts::LAST_PARSE_OLD_EDIT)
    };
    assert!(had_old, "re-parse must be incremental (old tree passed)");
    let e = edit.unwrap();
    // tree-sitter's contract for an InputEdit (start, old_end, new_end): the text before
    // `start` and the text after `old_end` (old) / `new_end` (new) is unchanged.  The exact
    // description (pos, pos+del, pos+ilen) satisfies it, and so does any correct narrowing
    // to the bytes that really differ -- an implementation that trims common prefixes /
    // suffixes is not a violation.
    let (es, eo, en) = (e.start_byte as usize, e.old_end_byte as usize, e.new_end_byte as usize);
    let nlen = new.len();
    assert!(es <= eo && eo <= len, "InputEdit: start <= old_end <= old length");
    assert!(es <= en && en <= nlen, "InputEdit: start <= new_end <= new length");
    assert!(len - eo == nlen - en, "InputEdit: the unchanged tail has the same length in both texts");
    let mut i = 0;
    while i < 6 {
      if i < es {
        assert!(buf[i] == new[i], "InputEdit: text before start_byte is unchanged");
      }
      if i >= eo && i < len {
        assert!(buf[i] == new[i - eo + en], "InputEdit: text after old_end_byte is the text after new_end_byte");
      }
      i += 1;
    }
    let p = point_of(&buf[..len], es);
    assert!(e.start_position == Point::new(p.0, p.1));
    let p = point_of(&buf[..len], eo);
    assert!(e.old_end_position == Point::new(p.0, p.1));
    let p = point_of(new, en);
    assert!(e.new_end_position == Point::new(p.0, p.1));
    if pos == len / 2 && del == len - pos && ilen == 2 {
      if !multibyte {
        kani::cover!(e.new_end_position.row() > e.start_position.row());
      }
      kani::cover!(e.new_end_byte > e.start_byte);
    }
    // tree-sitter contract: one Tree::edit per text change
    assert!(n_edits == 1, "the old tree must be edited exactly once per text change");
    std::mem::forget(g);
  }

  /// all (position, deleted, inserted) size classes for one text length
  fn all_cases(len: usize) {
    let mut pos = 0;
    while pos <= len {
      let mut del = 0;
      while del <= len - pos {
        let mut ilen = 0;
        while ilen <= 2 {
          one_case(len, pos, del, ilen, false);
          ilen += 1;
        }
        del += 1;
      }
      pos += 1;
    }
  }

  /// inserting the two-byte character U+00E9 at every position / deleted length
  fn multibyte_cases(len: usize) {
    let mut pos = 0;
    while pos <= len {
      let mut del = 0;
      while del <= len - pos {
        one_case(len, pos, del, 2, true);
        del += 1;
      }
      pos += 1;
    }
  }
  #[kani::proof]
  #[kani::unwind(7)]
  fn c10_input_edit_multibyte_len1() {
    multibyte_cases(1);
  }
  #[kani::proof]
  #[kani::unwind(7)]
  fn c10_input_edit_multibyte_len2() {
    multibyte_cases(2);
  }

  macro_rules! len_harness {
    ($name:ident, $len:expr) => {
      #[kani::proof]
      #[kani::unwind(7)]
      fn $name() {
        all_cases($len);
      }
    };
  }
  len_harness!(c10_input_edit_exact_len0, 0);
  len_harness!(c10_input_edit_exact_len1, 1);
  len_harness!(c10_input_edit_exact_len2, 2);
  len_harness!(c10_input_edit_exact_len3, 3);
  len_harness!(c10_input_edit_exact_len4, 4);
}
