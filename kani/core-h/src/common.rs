//! Shared harness vocabulary: the harness language, symbolic strings, tree builders.
use ast_grep_core::language::{Language, TSLanguage};
pub use mock_ts::{NodeData, TreeData, MAXN, NIL};

/// Harness language: the CLI instantiates `StrDoc<SgLang>`; the code paths are identical
/// for any `L: Language`.  Field 0 is the expando character.
#[derive(Clone)]
pub struct HL(pub char);

impl Language for HL {
  fn get_ts_language(&self) -> TSLanguage {
    mock_ts::Language
  }
  fn expando_char(&self) -> char {
    self.0
  }
}

/// choose one element of a small alphabet symbolically
#[cfg(kani)]
pub fn any_of<const K: usize>(alphabet: &[u8; K]) -> u8 {
  let i: usize = kani::any();
  kani::assume(i < K);
  alphabet[i]
}

/// a symbolic ASCII string of length <= N over `alphabet`
#[cfg(kani)]
pub fn any_bytes<const N: usize, const K: usize>(alphabet: &[u8; K]) -> ([u8; N], usize) {
  let mut buf = [0u8; N];
  let len: usize = kani::any();
  kani::assume(len <= N);
  let mut i = 0;
  while i < N {
    buf[i] = any_of(alphabet);
    i += 1;
  }
  (buf, len)
}

pub fn as_str(buf: &[u8], len: usize) -> &str {
  // harness alphabets are ASCII unless stated; callers with multi-byte alphabets
  // validate themselves
  unsafe { std::str::from_utf8_unchecked(&buf[..len]) }
}
