//! Shared harness vocabulary: the harness language, symbolic strings, tree builders.
use ast_grep_core::language::{Language, TSLanguage};
pub use mock_ts::{NodeData, TreeData, MAXN, NIL};

/// Harness language: the CLI instantiates `StrDoc<SgLang>`; the code paths are identical
/// for any `L: Language`.  Field 0 is the expando character.
#[derive(Clone)]
pub struct HL(pub char);

impl Language for HL {
  fn get_ts_language(&self) -> TSLanguage {
    mock_ts::Language
  }
  fn expando_char(&self) -> char {
    self.0
  }
}

/// choose one element of a small alphabet symbolically
#[cfg(kani)]
pub fn any_of<const K: usize>(alphabet: &[u8; K]) -> u8 {
  let i: usize = kani::any();
  kani::assume(i < K);
  alphabet[i]
}

/// a symbolic ASCII string of length <= N over `alphabet`
#[cfg(kani)]
pub fn any_bytes<const N: usize, const K: usize>(alphabet: &[u8; K]) -> ([u8; N], usize) {
  let mut buf = [0u8; N];
  let len: usize = kani::any();
  kani::assume(len <= N);
  let mut i = 0;
  while i < N {
    buf[i] = any_of(alphabet);
    i += 1;
  }
  (buf, len)
}

pub fn as_str(buf: &[u8], len: usize) -> &str {
  // harness alphabets are ASCII unless stated; callers with multi-byte alphabets
  // validate themselves
  unsafe { std::str::from_utf8_unchecked(&buf[..len]) }
}

use ast_grep_core::{AstGrep, StrDoc};

/// "parse" `src` into the given tree (the mock parser returns queued trees)
pub fn mk_grep(src: &str, tree: TreeData) -> AstGrep<StrDoc<HL>> {
  mock_ts::push_tree(tree);
  AstGrep::new(src, HL('$'))
}

/// a one-node tree whose root spans [start, end) of `src`
pub fn single_node(src: &[u8], start: u32, end: u32) -> TreeData {
  let mut t = TreeData::empty();
  t.n = 1;
  t.nodes[0].start = start;
  t.nodes[0].end = end;
  let (r, c) = mock_ts::point_of(src, start as usize);
  t.nodes[0].srow = r;
  t.nodes[0].scol = c;
  let (r, c) = mock_ts::point_of(src, end as usize);
  t.nodes[0].erow = r;
  t.nodes[0].ecol = c;
  t
}

/// symbolic UTF-8 text of at most NCH characters drawn from {a, \n, é (2 B), U+07FF (2 B,
/// leader 0xDF), U+0800 (3 B, leader 0xE0), U+FFFD (3 B, leader 0xEF), 😀 (4 B)}: the leaders
/// sit on the boundaries between the UTF-8 length classes;
/// returns (bytes, byte length, number of chars)
#[cfg(kani)]
pub fn any_utf8<const NCH: usize, const NB: usize>() -> ([u8; NB], usize, usize) {
  let mut buf = [0u8; NB];
  let nch: usize = kani::any();
  kani::assume(nch <= NCH);
  let mut len = 0;
  let mut i = 0;
  while i < NCH {
    if i < nch {
      let c: u8 = kani::any();
      kani::assume(c < 7);
      if c == 4 {
        // U+0800: smallest three-byte character (leader 0xE0)
        buf[len] = 0xE0;
        buf[len + 1] = 0xA0;
        buf[len + 2] = 0x80;
        len += 3;
      } else if c == 5 {
        // U+FFFD: leader 0xEF, the largest three-byte leader
        buf[len] = 0xEF;
        buf[len + 1] = 0xBF;
        buf[len + 2] = 0xBD;
        len += 3;
      } else if c == 6 {
        // U+07FF: largest two-byte character (leader 0xDF)
        buf[len] = 0xDF;
        buf[len + 1] = 0xBF;
        len += 2;
      } else if c == 0 {
        buf[len] = b'a';
        len += 1;
      } else if c == 1 {
        buf[len] = b'\n';
        len += 1;
      } else if c == 2 {
        buf[len] = 0xC3;
        buf[len + 1] = 0xA9;
        len += 2;
      } else {
        buf[len] = 0xF0;
        buf[len + 1] = 0x9F;
        buf[len + 2] = 0x98;
        buf[len + 3] = 0x80;
        len += 4;
      }
    }
    i += 1;
  }
  (buf, len, nch)
}

pub fn is_boundary(b: &[u8], len: usize, off: usize) -> bool {
  off == len || (off < len && (b[off] & 0xC0) != 0x80)
}

/// A symbolic tree: shape (pre-order parent vector), labels and layout are `kani::any()`
/// constrained only by tree-sitter's structural contract.
pub struct SymTree {
  pub data: TreeData,
  pub n: usize,
  pub parent: [u8; MAXN],
  /// total source length
  pub total: usize,
}

pub const SRC_X: &str = "xxxxxxxxxxxxxxxxxxxxxxxxxxxxxxxxxxxxxxxx";

#[cfg(kani)]
pub fn any_kind() -> u16 {
  let k: u16 = kani::any();
  kani::assume((k >= 1 && k <= 8) || k == mock_ts::ERROR_KIND);
  k
}

/// `nmax` <= MAXN nodes; leaf widths in [min_width, 2]; gaps in {0,1}
#[cfg(kani)]
pub fn any_tree(nmax: usize, min_width: u8) -> SymTree {
  let n: usize = kani::any();
  kani::assume(n >= 1 && n <= nmax);
  let mut parent = [0u8; MAXN];
  let mut i = 1;
  while i < MAXN {
    if i < nmax {
      let p: u8 = kani::any();
      kani::assume((p as usize) < i);
      parent[i] = p;
    }
    i += 1;
  }
  kani::assume(TreeData::is_preorder(n, &parent));
  let mut data = TreeData::from_parents(n, &parent);
  let mut width = [1u8; MAXN];
  let mut gap = [0u8; MAXN];
  let mut i = 0;
  while i < MAXN {
    if i < nmax {
      let w: u8 = kani::any();
      kani::assume(w >= min_width && w <= 2);
      width[i] = w;
      let g: u8 = kani::any();
      kani::assume(g <= 1);
      gap[i] = g;
      data.nodes[i].kind = any_kind();
      data.nodes[i].named = kani::any();
    }
    i += 1;
  }
  let total = data.layout(&width, &gap) as usize;
  data.fix_named_counts();
  SymTree { data, n, parent, total }
}

/// `last[u]` = largest pre-order index inside the subtree of `u`; `depth[u]`
pub fn subtree_info(n: usize, parent: &[u8; MAXN]) -> ([usize; MAXN], [usize; MAXN]) {
  let mut last = [0usize; MAXN];
  let mut depth = [0usize; MAXN];
  let mut i = 0;
  while i < MAXN {
    last[i] = i;
    i += 1;
  }
  let mut i = 1;
  while i < MAXN {
    if i < n {
      depth[i] = depth[parent[i] as usize] + 1;
    }
    i += 1;
  }
  let mut i = MAXN;
  while i > 1 {
    i -= 1;
    if i < n {
      let p = parent[i] as usize;
      if last[i] > last[p] {
        last[p] = last[i];
      }
    }
  }
  (last, depth)
}

/// the ast-grep `Node` for arena index `idx` (through `Root::adopt`)
pub fn node_at<'r>(g: &'r AstGrep<StrDoc<HL>>, idx: usize) -> ast_grep_core::Node<'r, StrDoc<HL>> {
  let ts_root = g.root().get_ts_node();
  g.inner.adopt(mock_ts::Node {
    tree: ts_root.tree,
    idx: idx as u8,
  })
}

/// arena index of an ast-grep node
pub fn idx_of(n: &ast_grep_core::Node<StrDoc<HL>>) -> usize {
  n.node_id() - 1
}

/// every pre-order parent vector of 1..=nmax (<= 4) nodes: 1 + 1 + 2 + 5 = 9 shapes.
/// Returns (shapes, sizes, count).
pub fn all_shapes(nmax: usize) -> ([[u8; MAXN]; 9], [usize; 9], usize) {
  let mut pv = [[0u8; MAXN]; 9];
  let mut ns = [0usize; 9];
  let mut cnt = 0;
  let mut n = 1;
  while n <= nmax && n <= 4 {
    let mut p2 = 0;
    while p2 < 2 {
      let mut p3 = 0;
      while p3 < 3 {
        let mut parent = [0u8; MAXN];
        parent[2] = p2;
        parent[3] = p3;
        let fresh = (n > 2 || p2 == 0) && (n > 3 || p3 == 0);
        if fresh && TreeData::is_preorder(n, &parent) {
          pv[cnt] = parent;
          ns[cnt] = n;
          cnt += 1;
        }
        p3 += 1;
      }
      p2 += 1;
    }
    n += 1;
  }
  (pv, ns, cnt)
}
