//! C04-3 `ops_env_{all,any}` and C01-3 `kinds_algebra`: the composite matchers of the real
//! `ops.rs` over stub children whose verdicts, environment writes and kind sets are
//! symbolic.  "The order in which alternatives are tried" is one assignment of the
//! symbolic verdict vector.
use crate::common::*;
use ast_grep_core::matcher::{Matcher, MatcherExt};
use ast_grep_core::meta_var::MetaVarEnv;
use ast_grep_core::ops::{All, Any};
use ast_grep_core::{Doc, Node};
use bit_set::BitSet;
use std::borrow::Cow;

/// stub child: optionally binds `name` to child `leaf` of the matched node *before*
/// answering; fails if the binding conflicts (like every real matcher), otherwise answers
/// `verdict` -- possibly `false` after having written (the adversarial case the composites
/// must contain).
#[derive(Clone, Copy)]
pub struct EnvM {
  pub verdict: bool,
  pub write: Option<(bool, u8)>, // (name is "B"?, leaf index 0/1)
  pub kinds: Option<u16>,        // bit mask over kind ids 1..8
}

impl Matcher<HL> for EnvM {
  fn match_node_with_env<'tree, D: Doc<Lang = HL>>(
    &self,
    node: Node<'tree, D>,
    env: &mut Cow<MetaVarEnv<'tree, D>>,
  ) -> Option<Node<'tree, D>> {
    if let Some((is_b, leaf)) = self.write {
      let target = node.child(leaf as usize)?;
      env.to_mut().insert(if is_b { "B" } else { "A" }, target)?;
    }
    if self.verdict {
      Some(node)
    } else {
      None
    }
  }
  fn potential_kinds(&self) -> Option<BitSet> {
    let mask = self.kinds?;
    // fixed capacity first: growth under a symbolic guard = heap object of symbolic size
    let mut set = BitSet::new();
    set.insert(15);
    set.remove(15);
    let mut k = 1;
    while k <= 8 {
      if mask & (1 << k) != 0 {
        set.insert(k);
      }
      k += 1;
    }
    Some(set)
  }
}

/// model environment: which leaf (0/1) A and B are bound to
#[derive(Clone, Copy, PartialEq, Eq, Debug)]
pub struct ModelEnv {
  pub a: Option<u8>,
  pub b: Option<u8>,
}
impl ModelEnv {
  /// insert succeeds iff unbound, same node, or same text (leaves: text equality)
  pub fn insert(&mut self, is_b: bool, leaf: u8, same_text: bool) -> bool {
    let slot = if is_b { &mut self.b } else { &mut self.a };
    match *slot {
      None => {
        *slot = Some(leaf);
        true
      }
      Some(old) => {
        if old == leaf || same_text {
          *slot = Some(leaf);
          true
        } else {
          false
        }
      }
    }
  }
  /// run one stub on the model
  pub fn run(&mut self, m: &EnvM, same_text: bool) -> bool {
    if let Some((is_b, leaf)) = m.write {
      if !self.insert(is_b, leaf, same_text) {
        return false;
      }
    }
    m.verdict
  }
}

pub fn observe<D: Doc>(env: &MetaVarEnv<D>) -> ModelEnv {
  ModelEnv {
    a: env.get_match("A").map(|n| (n.node_id() - 2) as u8),
    b: env.get_match("B").map(|n| (n.node_id() - 2) as u8),
  }
}

/// root + two leaves with 1-byte texts
pub fn two_leaf_tree(root_kind: u16) -> TreeData {
  let parent = [0u8; MAXN];
  let mut d = TreeData::from_parents(3, &parent);
  d.nodes[0].kind = root_kind;
  d.layout(&[1; MAXN], &[0; MAXN]);
  d.fix_named_counts();
  d
}

#[cfg(test)]
mod tests {
  use super::*;
  #[test]
  fn any_exposes_winner_only() {
    let g = mk_grep("xy", two_leaf_tree(3));
    let c1 = EnvM { verdict: false, write: Some((false, 0)), kinds: None };
    let c2 = EnvM { verdict: true, write: Some((true, 1)), kinds: None };
    let any = Any::new([c1, c2]);
    let nm = any.match_node(g.root()).unwrap();
    assert_eq!(observe(nm.get_env()), ModelEnv { a: None, b: Some(1) });
    let all = All::new([c2, EnvM { verdict: true, write: Some((false, 0)), kinds: None }]);
    let nm = all.match_node(g.root()).unwrap();
    assert_eq!(observe(nm.get_env()), ModelEnv { a: Some(0), b: Some(1) });
  }
}

#[cfg(kani)]
mod proofs {
  use super::*;

  fn any_envm(with_kinds: bool) -> EnvM {
    let write = if kani::any() {
      let leaf: u8 = kani::any();
      kani::assume(leaf < 2);
      Some((kani::any(), leaf))
    } else {
      None
    };
    let kinds = if with_kinds && kani::any() { Some(kani::any::<u16>() & 0x1fe) } else { None };
    EnvM { verdict: kani::any(), write, kinds }
  }

  fn setup() -> (ast_grep_core::AstGrep<ast_grep_core::StrDoc<HL>>, bool, u16) {
    let same_text: bool = kani::any();
    let root_kind: u16 = kani::any();
    kani::assume(root_kind >= 1 && root_kind <= 8);
    let buf = [b'x', if same_text { b'x' } else { b'y' }];
    (mk_grep(as_str(&buf, 2), two_leaf_tree(root_kind)), same_text, root_kind)
  }

  /// base env: symbolic pre-existing bindings
  fn base_env<'t>(
    g: &'t ast_grep_core::AstGrep<ast_grep_core::StrDoc<HL>>,
  ) -> (MetaVarEnv<'t, ast_grep_core::StrDoc<HL>>, ModelEnv) {
    let mut env = MetaVarEnv::new();
    let mut model = ModelEnv { a: None, b: None };
    if kani::any() {
      let leaf: u8 = kani::any();
      kani::assume(leaf < 2);
      env.insert("A", g.root().child(leaf as usize).unwrap());
      model.a = Some(leaf);
    }
    (env, model)
  }

  #[kani::proof]
  #[kani::unwind(5)]
  fn c04_ops_any_env() {
    let (g, same_text, _) = setup();
    let (base, model0) = base_env(&g);
    let kids = [any_envm(false), any_envm(false), any_envm(false)];
    let any = Any::new(kids);
    let mut env = Cow::Borrowed(&base);
    let got = any.match_node_with_env(g.root(), &mut env);
    // oracle: first alternative that succeeds from the *base* env wins
    let mut want = None;
    let mut i = 0;
    while i < 3 {
      if want.is_none() {
        let mut m = model0;
        if m.run(&kids[i], same_text) {
          want = Some(m);
        }
      }
      i += 1;
    }
    kani::cover!(got.is_some() && !kids[0].verdict && kids[0].write.is_some());
    kani::cover!(got.is_none() && kids[2].write.is_some());
    match want {
      Some(m) => {
        assert!(got.is_some());
        assert!(observe(&env) == m, "any must expose exactly the winning branch");
      }
      None => {
        assert!(got.is_none());
        assert!(observe(&env) == model0, "losing branches must leave no trace");
      }
    }
    // the caller's own environment is never touched
    assert!(observe(&base) == model0);
    std::mem::forget(env);
    std::mem::forget(any);
    std::mem::forget(base);
    std::mem::forget(g);
  }

  #[kani::proof]
  #[kani::unwind(5)]
  fn c04_ops_all_env() {
    let (g, same_text, _) = setup();
    let (base, model0) = base_env(&g);
    let kids = [any_envm(false), any_envm(false), any_envm(false)];
    let all = All::new(kids);
    let mut env = Cow::Borrowed(&base);
    let got = all.match_node_with_env(g.root(), &mut env);
    let mut m = model0;
    let mut ok = true;
    let mut i = 0;
    while i < 3 {
      if ok && !m.run(&kids[i], same_text) {
        ok = false;
      }
      i += 1;
    }
    kani::cover!(got.is_some() && m.a.is_some() && m.b.is_some());
    kani::cover!(got.is_none() && kids[0].verdict && kids[0].write.is_some());
    if ok {
      assert!(got.is_some());
      assert!(observe(&env) == m, "all must expose the union");
    } else {
      assert!(got.is_none());
      assert!(observe(&env) == model0, "a failed conjunction must leave no trace");
    }
    assert!(observe(&base) == model0);
    std::mem::forget(env);
    std::mem::forget(all);
    std::mem::forget(base);
    std::mem::forget(g);
  }

  /// kind dispatch never rejects a node the composite would accept, and the cached set
  /// is the intersection / union of the children's sets
  #[kani::proof]
  #[kani::unwind(10)]
  fn c01_kinds_algebra() {
    let (g, _, root_kind) = setup();
    let mut kids = [any_envm(true), any_envm(true), any_envm(true)];
    // children honour their own contract: they only accept kinds they advertise
    let mut i = 0;
    while i < 3 {
      kids[i].write = None;
      if let Some(mask) = kids[i].kinds {
        if mask & (1 << root_kind) == 0 {
          kids[i].verdict = false;
        }
      }
      i += 1;
    }
    let all = All::new(kids);
    let any = Any::new(kids);
    let all_want = kids[0].verdict && kids[1].verdict && kids[2].verdict;
    let any_want = kids[0].verdict || kids[1].verdict || kids[2].verdict;
    assert!(all.match_node(g.root()).is_some() == all_want);
    assert!(any.match_node(g.root()).is_some() == any_want);
    // expected sets as masks
    let mut inter: Option<u16> = None;
    let mut uni: Option<u16> = Some(0);
    let mut i = 0;
    while i < 3 {
      match kids[i].kinds {
        Some(mk) => {
          inter = Some(match inter {
            Some(x) => x & mk,
            None => mk,
          });
          uni = uni.map(|u| u | mk);
        }
        None => uni = None,
      }
      i += 1;
    }
    let as_mask = |s: Option<BitSet>| -> Option<u16> {
      s.map(|s| {
        let mut m = 0u16;
        let mut k = 1;
        while k <= 8 {
          if s.contains(k) {
            m |= 1 << k;
          }
          k += 1;
        }
        m
      })
    };
    assert!(as_mask(all.potential_kinds()) == inter);
    assert!(as_mask(any.potential_kinds()) == uni);
    kani::cover!(all_want && inter.is_some());
    kani::cover!(any_want && !all_want && uni.is_some());
    std::mem::forget(all);
    std::mem::forget(any);
    std::mem::forget(g);
  }

  /// the kind-set algebra alone (no matching): the set cached by `All::new` / `Any::new` is
  /// exactly the intersection (children without a set are skipped) / the union (a child
  /// without a set makes the result `None`) of the children's advertised sets -- so the
  /// kind gate of `FindAllNodes` / `CombinedScan` never drops a node every (some) child
  /// would accept
  fn kinds_only(all: bool) {
    // which children advertise a set is enumerated concretely (a symbolic choice makes the
    // accumulator point into one of several heap objects: out of memory in array
    // post-processing); the masks are symbolic
    let mut pat = 0;
    while pat < 8 {
      kinds_case(all, [pat & 1 != 0, pat & 2 != 0, pat & 4 != 0]);
      pat += 1;
    }
  }

  fn kinds_case(all: bool, present: [bool; 3]) {
    let mut kids = [EnvM { verdict: true, write: None, kinds: None }; 3];
    let mut i = 0;
    while i < 3 {
      if present[i] {
        kids[i].kinds = Some(kani::any::<u16>() & 0x1fe);
      }
      i += 1;
    }
    let mut inter: Option<u16> = None;
    let mut uni: Option<u16> = Some(0);
    let mut i = 0;
    while i < 3 {
      match kids[i].kinds {
        Some(mk) => {
          inter = Some(match inter {
            Some(x) => x & mk,
            None => mk,
          });
          uni = uni.map(|u| u | mk);
        }
        None => uni = None,
      }
      i += 1;
    }
    let got = if all {
      let m = All::new(kids);
      let r = m.potential_kinds();
      std::mem::forget(m);
      r
    } else {
      let m = Any::new(kids);
      let r = m.potential_kinds();
      std::mem::forget(m);
      r
    };
    let want = if all { inter } else { uni };
    let got_mask = match &got {
      None => None,
      Some(s) => {
        let mut m = 0u16;
        let mut k = 1;
        while k <= 8 {
          if s.contains(k) {
            m |= 1 << k;
          }
          k += 1;
        }
        Some(m)
      }
    };
    if present[0] && present[1] && present[2] {
      kani::cover!(want.is_some() && want != Some(0));
    }
    assert!(got_mask == want, "cached kind set == intersection / union of the children's sets");
    std::mem::forget(got);
  }

  #[kani::proof]
  #[kani::unwind(10)]
  fn c01k_kinds_all() {
    kinds_only(true);
  }

  #[kani::proof]
  #[kani::unwind(10)]
  fn c01k_kinds_any() {
    kinds_only(false);
  }

  /// C04 `failed alternatives leave no trace`, kernel form: two stub children with a
  /// *concrete* write pattern (which variable each binds to which leaf), symbolic verdicts
  /// and symbolic text equality of the two leaves; empty caller environment.
  fn env_case(all: bool, w0: Option<(bool, u8)>, w1: Option<(bool, u8)>) {
    let same_text: bool = kani::any();
    let buf = [b'x', if same_text { b'x' } else { b'y' }];
    let g = mk_grep(as_str(&buf, 2), two_leaf_tree(3));
    let kids = [EnvM { verdict: kani::any(), write: w0, kinds: None }, EnvM { verdict: kani::any(), write: w1, kinds: None }];
    let base = MetaVarEnv::new();
    let model0 = ModelEnv { a: None, b: None };
    let mut env = Cow::Borrowed(&base);
    let (got, want_some, want_model) = if all {
      let m = All::new(kids);
      let got = m.match_node_with_env(g.root(), &mut env).is_some();
      std::mem::forget(m);
      let mut md = model0;
      let ok = md.run(&kids[0], same_text) && md.run(&kids[1], same_text);
      (got, ok, if ok { md } else { model0 })
    } else {
      let m = Any::new(kids);
      let got = m.match_node_with_env(g.root(), &mut env).is_some();
      std::mem::forget(m);
      let mut m0 = model0;
      let mut m1 = model0;
      if m0.run(&kids[0], same_text) {
        (got, true, m0)
      } else if m1.run(&kids[1], same_text) {
        (got, true, m1)
      } else {
        (got, false, model0)
      }
    };
    kani::cover!(got);
    kani::cover!(!got);
    assert!(got == want_some);
    assert!(observe(&env) == want_model, "any exposes exactly the winning branch, all the union, a failure nothing");
    assert!(observe(&base) == model0);
    std::mem::forget(env);
    std::mem::forget(base);
    std::mem::forget(g);
  }

  macro_rules! env_harness {
    ($name:ident, $all:expr, $w0:expr, $w1:expr) => {
      #[kani::proof]
      #[kani::unwind(5)]
      fn $name() {
        env_case($all, $w0, $w1);
      }
    };
  }
  // A<-leaf0 then B<-leaf1 (disjoint variables)
  env_harness!(c04k_any_a0_b1, false, Some((false, 0)), Some((true, 1)));
  env_harness!(c04k_all_a0_b1, true, Some((false, 0)), Some((true, 1)));
  // A<-leaf0 then A<-leaf1 (same variable: coherent only if the texts are equal)
  env_harness!(c04k_any_a0_a1, false, Some((false, 0)), Some((false, 1)));
  env_harness!(c04k_all_a0_a1, true, Some((false, 0)), Some((false, 1)));
  // A<-leaf0 then nothing
  env_harness!(c04k_any_a0_none, false, Some((false, 0)), None);
  env_harness!(c04k_all_a0_none, true, Some((false, 0)), None);
}
