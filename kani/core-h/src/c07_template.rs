//! C07-1 / C20-3 `template_scan`: the real template parser (`TemplateFix::with_transform`
//! -> `create_template` -> `split_first_meta_var`, `get_indent_at_offset`) against an
//! independently written scanner, for every template string up to N bytes.
use crate::common::*;
use ast_grep_core::replacer::verif_hooks::template_parts;
use ast_grep_core::replacer::TemplateFix;

fn is_name_char(c: u8) -> bool {
  c.is_ascii_uppercase() || c == b'_' || c.is_ascii_digit()
}

#[derive(Clone, Copy, PartialEq, Eq, Debug)]
pub struct Occ {
  pub start: usize,
  pub end: usize,
  pub name_start: usize,
  pub multi: bool,
  pub indent: usize,
}

/// leading indentation (spaces) of the line containing byte `pos`
pub fn line_indent(t: &[u8], pos: usize) -> usize {
  let mut ls = 0;
  let mut i = 0;
  while i < pos {
    if t[i] == b'\n' {
      ls = i + 1;
    }
    i += 1;
  }
  let mut k = 0;
  while ls + k < pos && t[ls + k] == b' ' {
    k += 1;
  }
  k
}

/// Reference scanner: at each sigil, up to three sigils then a maximal run of
/// [A-Z_0-9]; a non-empty run makes a variable occurrence (`$$$NAME` = multi), otherwise
/// that sigil is literal text and scanning resumes right after it.
pub fn scan(t: &[u8], sigil: u8, out: &mut [Occ; 8]) -> usize {
  let mut n = 0;
  let mut i = 0;
  while i < t.len() {
    if t[i] != sigil {
      i += 1;
      continue;
    }
    let mut k = 1;
    while k < 3 && i + k < t.len() && t[i + k] == sigil {
      k += 1;
    }
    let mut e = i + k;
    while e < t.len() && is_name_char(t[e]) {
      e += 1;
    }
    if e == i + k {
      i += 1;
      continue;
    }
    out[n] = Occ {
      start: i,
      end: e,
      name_start: i + k,
      multi: k == 3,
      indent: line_indent(t, i),
    };
    n += 1;
    i = e;
  }
  n
}

/// compare the real parse with the reference scan; `trans` = name treated as transformed
pub fn agrees(t: &[u8], trans: &[String]) -> bool {
  let s = as_str(t, t.len());
  let fix = TemplateFix::with_transform(s, &HL('$'), trans);
  let (frags, vars) = template_parts(&fix);
  let mut occ = [Occ { start: 0, end: 0, name_start: 0, multi: false, indent: 0 }; 8];
  let n = scan(t, b'$', &mut occ);
  if vars.len() != n || frags.len() != n + 1 {
    return false;
  }
  let mut prev_end = 0;
  let mut i = 0;
  while i < n {
    let o = occ[i];
    if frags[i].as_bytes() != &t[prev_end..o.start] {
      return false;
    }
    let (kind, name, indent) = &vars[i];
    if name.as_bytes() != &t[o.name_start..o.end] {
      return false;
    }
    let is_trans = !o.multi && trans.iter().any(|x| x.as_bytes() == &t[o.name_start..o.end]);
    let want_kind = if o.multi { 1 } else if is_trans { 2 } else { 0 };
    if *kind != want_kind || *indent != o.indent {
      return false;
    }
    prev_end = o.end;
    i += 1;
  }
  let ok = frags[n].as_bytes() == &t[prev_end..];
  // no drop glue under symbolic execution (Vec<String> with symbolic lengths)
  std::mem::forget(frags);
  std::mem::forget(vars);
  std::mem::forget(fix);
  ok
}

#[cfg(test)]
mod tests {
  use super::*;
  #[test]
  fn vectors() {
    let tr = vec!["T".to_string()];
    for s in ["", "a", "$A", "$$A", "$$$A", "$a", "$", "$$", "$$$", "$$$$A", "x $A\n  $$$B_1 $T $", "$1", "$_", " $A", "\n  $A$B"] {
      assert!(agrees(s.as_bytes(), &tr), "{s:?}");
    }
  }
}

#[cfg(kani)]
mod proofs {
  use super::*;

  /// one concrete template length, symbolic bytes (symbolic *lengths* of heap strings
  /// exhaust the back end: 16 M variables for 3-symbol strings; concrete lengths do not)
  fn check_len(len: usize) {
    let mut buf = [b' '; 8];
    let mut i = 0;
    while i < 8 {
      if i < len {
        buf[i] = any_of(b"$AT_1 \n");
      }
      i += 1;
    }
    let t = &buf[..len];
    let tr = vec!["T".to_string()];
    let mut occ = [Occ { start: 0, end: 0, name_start: 0, multi: false, indent: 0 }; 8];
    let n = scan(t, b'$', &mut occ);
    if len >= 4 {
      kani::cover!(n >= 2);
      kani::cover!(n >= 1 && occ[0].multi);
      kani::cover!(n >= 1 && occ[0].indent >= 1);
      kani::cover!(n == 0);
    }
    assert!(agrees(t, &tr));
    std::mem::forget(tr);
  }

  fn check<const N: usize>() {
    let mut len = 0;
    while len <= N {
      check_len(len);
      len += 1;
    }
  }

  #[kani::proof]
  #[kani::unwind(10)]
  fn c07_template_scan_len4() {
    check_len(4);
  }
  #[kani::proof]
  #[kani::unwind(10)]
  fn c07_template_scan_len5() {
    check_len(5);
  }
  #[kani::proof]
  #[kani::unwind(10)]
  fn c07_template_scan_len6() {
    check_len(6);
  }

  /// Fixed *layout* (where the sigils and name characters sit is concrete, so every heap
  /// string has a concrete length), symbolic filler characters `?` over {' ', '\n', 'x'}:
  /// what is decided is the recorded indentation of every slot and the fragment texts.
  fn filler() -> u8 {
    // an if-tree over constants (not `any` + `assume`): comparisons with the sigil fold
    if kani::any() {
      b' '
    } else if kani::any() {
      b'\n'
    } else {
      b'x'
    }
  }
  fn check_layout<const N: usize>(layout: &[u8; N]) {
    let mut buf = [0u8; N];
    let mut i = 0;
    while i < N {
      buf[i] = if layout[i] == b'?' { filler() } else { layout[i] };
      i += 1;
    }
    let tr = vec!["T".to_string()];
    let mut occ = [Occ { start: 0, end: 0, name_start: 0, multi: false, indent: 0 }; 8];
    let n = scan(&buf, b'$', &mut occ);
    kani::cover!(n >= 1 && occ[n - 1].indent >= 2);
    kani::cover!(n >= 1 && occ[n - 1].indent == 0);
    kani::cover!(n >= 2 && occ[0].indent != occ[1].indent);
    assert!(agrees(&buf, &tr));
    std::mem::forget(tr);
  }
  macro_rules! layout_harness {
    ($name:ident, $lay:expr) => {
      #[kani::proof]
      #[kani::unwind(14)]
      fn $name() {
        check_layout($lay);
      }
    };
  }
  // two slots on (possibly) different lines with different indents
  layout_harness!(c07_template_layout_two_slots, b"??$A???$$$B");
  // a rejected sigil (`$(`, `$a`) in the same fragment before the slot
  layout_harness!(c07_template_layout_rejected_paren, b"$(???$F?");
  layout_harness!(c07_template_layout_rejected_lower, b"?$a???$T$");
  // slot first, transformed slot later, trailing lone sigils
  layout_harness!(c07_template_layout_adjacent, b"$A$$B??$T?$$");

  /// the per-occurrence kernel alone: `split_first_meta_var` on every string that starts
  /// with the sigil
  #[kani::proof]
  #[kani::unwind(9)]
  fn c07_split_first_meta_var_n7() {
    use ast_grep_core::replacer::verif_hooks::split_first_meta_var;
    let (mut buf, len) = any_bytes::<7, 6>(b"$AT_1b");
    kani::assume(len >= 1);
    buf[0] = b'$';
    let t = &buf[..len];
    let tr = ["T".to_string()];
    let got = split_first_meta_var(as_str(t, len), '$', &tr);
    // reference: up to three sigils, then a maximal run of name chars
    let mut k = 1;
    while k < 3 && k < len && t[k] == b'$' {
      k += 1;
    }
    let mut e = k;
    while e < len && is_name_char(t[e]) {
      e += 1;
    }
    kani::cover!(e > k && k == 3);
    kani::cover!(e == k && len > 2);
    kani::cover!(e > k + 1 && k == 2);
    match got {
      None => assert!(e == k),
      Some((kind, name, consumed)) => {
        assert!(e > k && consumed == e && name.as_bytes() == &t[k..e]);
        let is_t = e == k + 1 && t[k] == b'T';
        let want = if k == 3 { 1 } else if is_t { 2 } else { 0 };
        assert!(kind == want);
        std::mem::forget(name);
      }
    }
    std::mem::forget(tr);
  }

  #[kani::proof]
  #[kani::unwind(7)]
  fn c07_template_scan_n5() {
    check::<5>();
  }

  #[kani::proof]
  #[kani::unwind(9)]
  fn c07_template_scan_n7() {
    check::<7>();
  }
}
