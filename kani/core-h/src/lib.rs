//! Kani harnesses over the real `ast-grep-core` (path dependency on /repo) with the
//! tree-sitter facade replaced by `mock-ts` (stub ST1).  See /verif/DESIGN.md.
#![allow(dead_code, unused_imports, unconditional_panic, clippy::all)]

pub mod common;

#[cfg(any(kani, test))]
mod c20_metavar;
#[cfg(any(kani, test))]
mod c07_template;
#[cfg(any(kani, test))]
mod c16_positions;
#[cfg(any(kani, test))]
mod c10_edit;
#[cfg(any(kani, test))]
mod c19_nav;
#[cfg(any(kani, test))]
mod c03_align;
#[cfg(any(kani, test))]
mod c01_search;
#[cfg(any(kani, test))]
mod c03_terminal;
#[cfg(any(kani, test))]
mod c01_prefilter;
#[cfg(any(kani, test))]
mod c03_single;
#[cfg(any(kani, test))]
pub mod c04_ops;
#[cfg(any(kani, test))]
mod c02_cut;
#[cfg(any(kani, test))]
mod c07_indent;
#[cfg(any(kani, test))]
mod c04_insert;
