//! Kani harnesses over the real `ast-grep-core` (path dependency on /repo) with the
//! tree-sitter facade replaced by `mock-ts` (stub ST1).  See /verif/DESIGN.md.
#![allow(dead_code, unused_imports, clippy::all)]

pub mod common;

#[cfg(any(kani, test))]
mod c20_metavar;
