//! C04-1 `insert_coherent`: `MetaVarEnv::insert` / `insert_multi` with the real
//! `does_node_match_exactly`: a second binding of the same name is accepted iff the two
//! nodes are structurally identical (leaves: same text), and a rejected binding leaves the
//! environment unchanged.
use crate::c04_ops::two_leaf_tree;
use crate::common::*;
use ast_grep_core::meta_var::MetaVarEnv;

#[cfg(test)]
mod tests {
  use super::*;
  #[test]
  fn smoke() {
    let g = mk_grep("xy", two_leaf_tree(3));
    let a = g.root().child(0).unwrap();
    let b = g.root().child(1).unwrap();
    let mut env = MetaVarEnv::new();
    assert!(env.insert("A", a.clone()).is_some());
    assert!(env.insert("A", b.clone()).is_none());
    assert_eq!(env.get_match("A").unwrap().node_id(), a.node_id());
    assert!(env.insert("B", b).is_some());
  }
}

#[cfg(kani)]
mod proofs {
  use super::*;

  #[kani::proof]
  #[kani::unwind(10)]
  fn c04_insert_coherent() {
    let same_text: bool = kani::any();
    let buf = [b'x', if same_text { b'x' } else { b'y' }];
    let g = mk_grep(as_str(&buf, 2), two_leaf_tree(3));
    let first: usize = kani::any();
    let second: usize = kani::any();
    kani::assume(first < 2 && second < 2);
    let same_name: bool = kani::any();
    let n1 = g.root().child(first).unwrap();
    let n2 = g.root().child(second).unwrap();
    let mut env = MetaVarEnv::new();
    assert!(env.insert("A", n1.clone()).is_some());
    let ok = env.insert(if same_name { "A" } else { "B" }, n2.clone()).is_some();
    let want = !same_name || first == second || same_text;
    kani::cover!(ok && same_name && first != second);
    kani::cover!(!ok);
    assert!(ok == want, "same name must bind structurally identical code, and only that is rejected");
    // a rejected binding leaves no trace; an accepted one is visible
    let a = env.get_match("A").unwrap().node_id();
    if !ok {
      assert!(a == n1.node_id() && env.get_match("B").is_none());
    } else if same_name {
      assert!(a == n2.node_id());
    } else {
      assert!(a == n1.node_id() && env.get_match("B").unwrap().node_id() == n2.node_id());
    }
    std::mem::forget(env);
    std::mem::forget(g);
  }

  /// `$$$A` bound twice: accepted iff the named nodes of both runs pair up identically
  #[kani::proof]
  #[kani::unwind(6)]
  fn c04_insert_multi_coherent() {
    let same_text: bool = kani::any();
    let buf = [b'x', if same_text { b'x' } else { b'y' }];
    let g = mk_grep(as_str(&buf, 2), two_leaf_tree(3));
    let a = g.root().child(0).unwrap();
    let b = g.root().child(1).unwrap();
    let second_is_b: bool = kani::any();
    let second_len2: bool = kani::any();
    let mut env = MetaVarEnv::new();
    assert!(env.insert_multi("A", vec![a.clone()]).is_some());
    let mut second = vec![if second_is_b { b.clone() } else { a.clone() }];
    if second_len2 {
      second.push(b.clone());
    }
    let ok = env.insert_multi("A", second).is_some();
    let want = !second_len2 && (!second_is_b || same_text);
    kani::cover!(ok && second_is_b);
    kani::cover!(!ok && !second_len2);
    assert!(ok == want);
    if !ok {
      let m = env.get_multiple_matches("A");
      assert!(m.len() == 1 && m[0].node_id() == a.node_id());
      std::mem::forget(m);
    }
    std::mem::forget(env);
    std::mem::forget(g);
  }
}
