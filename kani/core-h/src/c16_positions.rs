//! C16-1 `char_column` and C16-2 `display_context_exact` (also C19's position clause):
//! `String::get_char_column` / `Position::column` and `Node::display_context`.
use crate::common::*;
use ast_grep_core::source::Content;

/// characters between the last '\n' before `off` and `off` (forward decode)
pub fn spec_column(b: &[u8], off: usize) -> usize {
  let mut col = 0;
  let mut i = 0;
  while i < off {
    let c = b[i];
    let w = if c < 0x80 { 1 } else if c >= 0xF0 { 4 } else if c >= 0xE0 { 3 } else { 2 };
    if c == b'\n' {
      col = 0;
    } else {
      col += 1;
    }
    i += w;
  }
  col
}

/// tree-sitter's byte column: bytes since the last newline before `off`
pub fn byte_column(b: &[u8], off: usize) -> usize {
  let mut col = 0;
  let mut i = 0;
  while i < off {
    if b[i] == b'\n' {
      col = 0;
    } else {
      col += 1;
    }
    i += 1;
  }
  col
}

/// (leading start, trailing end, start_line) of the context window, from the definition:
/// whole lines covering [s,e) plus `before`/`after` extra lines, clipped at file edges
pub fn spec_context(b: &[u8], s: usize, e: usize, before: usize, after: usize) -> (usize, usize, usize) {
  // line starts
  let mut k = 0; // newlines before s
  let mut i = 0;
  while i < s {
    if b[i] == b'\n' {
      k += 1;
    }
    i += 1;
  }
  let back = if before < k { before } else { k };
  // start of line (k - back)
  let target = k - back;
  let mut line = 0;
  let mut lead = 0;
  let mut i = 0;
  while i < s && line < target {
    if b[i] == b'\n' {
      line += 1;
      lead = i + 1;
    }
    i += 1;
  }
  // end: the (after+1)-th newline at or after e, else len
  let mut seen = 0;
  let mut trail = b.len();
  let mut i = e;
  while i < b.len() {
    if b[i] == b'\n' {
      seen += 1;
      if seen == after + 1 {
        trail = i;
        break;
      }
    }
    i += 1;
  }
  (lead, trail, target)
}

#[cfg(test)]
mod tests {
  use super::*;
  #[test]
  fn vectors() {
    let src = "ab\ncd e\nfg";
    let t = single_node(src.as_bytes(), 3, 5);
    let g = mk_grep(src, t);
    let dc = g.root().display_context(1, 0);
    assert_eq!((dc.leading, dc.trailing, dc.start_line), ("ab\n", " e", 0));
    assert_eq!(spec_context(src.as_bytes(), 3, 5, 1, 0), (0, 7, 0));
    assert_eq!(spec_column("a\né😀b".as_bytes(), 8), 2);
    assert_eq!("a\né😀b".to_string().get_char_column(0, 8), 2);
  }
}

#[cfg(kani)]
mod proofs {
  use super::*;

  #[kani::proof]
  #[kani::unwind(18)]
  fn c16_char_column_4ch() {
    let (buf, len, _) = any_utf8::<4, 16>();
    let off: usize = kani::any();
    kani::assume(off <= len && is_boundary(&buf, len, off));
    let s = unsafe { String::from_utf8_unchecked(buf[..len].to_vec()) };
    // callers pass tree-sitter's *byte* column of the offset (`Position::column`)
    let got = s.get_char_column(byte_column(&buf[..len], off), off);
    let want = spec_column(&buf[..len], off);
    kani::cover!(want == 3);
    kani::cover!(want == 1 && off >= 5);
    assert!(got == want);
    std::mem::forget(s);
  }

  /// fixed 12-byte layout (concrete length: DESIGN 3) `x0 <2B> x1 <3B> 😀 x2` with
  /// x_i in {a, \n}, <2B> in {U+00E9, U+07FF}, <3B> in {U+0800, U+FFFD}: leaders on the
  /// boundaries between the UTF-8 length classes
  #[kani::proof]
  #[kani::unwind(14)]
  fn c16_char_column_layout12() {
    let mut buf = [b'a', 0xC3, 0xA9, b'a', 0xE0, 0xA0, 0x80, 0xF0, 0x9F, 0x98, 0x80, b'a'];
    if kani::any() {
      buf[0] = b'\n';
    }
    if kani::any() {
      buf[3] = b'\n';
    }
    if kani::any() {
      buf[11] = b'\n';
    }
    if kani::any() {
      buf[1] = 0xDF;
      buf[2] = 0xBF;
    }
    if kani::any() {
      buf[4] = 0xEF;
      buf[5] = 0xBF;
      buf[6] = 0xBD;
    }
    let len = 12;
    let off: usize = kani::any();
    kani::assume(off <= len && is_boundary(&buf, len, off));
    let s = unsafe { String::from_utf8_unchecked(buf.to_vec()) };
    let got = s.get_char_column(byte_column(&buf, off), off);
    let want = spec_column(&buf, off);
    kani::cover!(want == 5);
    kani::cover!(want == 2 && off >= 8);
    assert!(got == want);
    std::mem::forget(s);
  }

  fn display<const N: usize>() {
    let (buf, len) = any_bytes::<N, 2>(b"a\n");
    let s: usize = kani::any();
    let e: usize = kani::any();
    let before: usize = kani::any();
    let after: usize = kani::any();
    kani::assume(s <= e && e <= len && before <= 2 && after <= 2);
    let src = as_str(&buf, len);
    let g = mk_grep(src, single_node(&buf[..len], s as u32, e as u32));
    let dc = g.root().display_context(before, after);
    let (lead, trail, line) = spec_context(&buf[..len], s, e, before, after);
    kani::cover!(lead > 0 && trail < len);
    kani::cover!(line > 0);
    kani::cover!(lead == 0 && before > 0 && s > 2);
    assert!(dc.leading.as_bytes() == &buf[lead..s]);
    assert!(dc.trailing.as_bytes() == &buf[e..trail]);
    assert!(dc.matched.as_bytes() == &buf[s..e]);
    assert!(dc.start_line == line);
    std::mem::forget(g);
  }

  /// number of newlines before `off`
  fn spec_line(b: &[u8], off: usize) -> usize {
    let mut n = 0;
    let mut i = 0;
    while i < off {
      if b[i] == b'\n' {
        n += 1;
      }
      i += 1;
    }
    n
  }

  /// `Node::start_pos()/end_pos()` (`line()`, `column(&node)`, `ts_point()`) of a node over
  /// the 12-byte layout text of `c16_char_column_layout12`
  #[kani::proof]
  #[kani::unwind(14)]
  fn c19_node_positions_layout12() {
    let mut buf = [b'a', 0xC3, 0xA9, b'a', 0xE0, 0xA0, 0x80, 0xF0, 0x9F, 0x98, 0x80, b'a'];
    if kani::any() {
      buf[0] = b'\n';
    }
    if kani::any() {
      buf[3] = b'\n';
    }
    if kani::any() {
      buf[11] = b'\n';
    }
    let len = 12;
    let s: usize = kani::any();
    let e: usize = kani::any();
    kani::assume(s <= e && e <= len && is_boundary(&buf, len, s) && is_boundary(&buf, len, e));
    let src = unsafe { std::str::from_utf8_unchecked(&buf) };
    let g = mk_grep(src, single_node(&buf, s as u32, e as u32));
    let root = g.root();
    let (sp, ep) = (root.start_pos(), root.end_pos());
    kani::cover!(spec_line(&buf, e) == 2);
    kani::cover!(spec_column(&buf, s) == 4);
    assert!(sp.line() == spec_line(&buf, s) && ep.line() == spec_line(&buf, e));
    assert!(sp.column(&root) == spec_column(&buf, s) && ep.column(&root) == spec_column(&buf, e));
    let tp = sp.ts_point();
    assert!((tp.row() as usize, tp.column() as usize) == (spec_line(&buf, s), byte_column(&buf, s)));
    assert!(root.range() == (s..e));
    std::mem::forget(root);
    std::mem::forget(g);
  }

  /// the same after an in-place edit that inserts a multi-byte character into an ASCII
  /// document: positions are those of the *new* text
  fn positions_after_edit_at(pos: usize) {
    mock_ts::reset_queue();
    let mut old = [b'a'; 3];
    if kani::any() {
      old[1] = b'\n';
    }
    let src = unsafe { std::str::from_utf8_unchecked(&old) };
    let mut g = mk_grep(src, single_node(&old, 0, 3));
    // new text = old[..pos] é old[pos..]
    let mut new = [0u8; 5];
    let mut i = 0;
    while i < 5 {
      new[i] = if i < pos { old[i] } else if i == pos { 0xC3 } else if i == pos + 1 { 0xA9 } else { old[i - 2] };
      i += 1;
    }
    mock_ts::push_tree(single_node(&new, 0, 5));
    let r = g.edit(ast_grep_core::source::Edit::<String> { position: pos, deleted_length: 0, inserted_text: vec![0xC3, 0xA9] });
    assert!(r.is_ok());
    let root = g.root();
    let ep = root.end_pos();
    if pos == 3 {
      kani::cover!(old[1] == b'\n');
      kani::cover!(old[1] != b'\n');
    }
    assert!(g.source().as_bytes() == &new);
    assert!(ep.line() == spec_line(&new, 5) && ep.column(&root) == spec_column(&new, 5));
    std::mem::forget(root);
    std::mem::forget(g);
  }

  /// the edit position is enumerated concretely (a symbolic splice position exhausts the
  /// back end, DESIGN 3)
  #[kani::proof]
  #[kani::unwind(10)]
  fn c19_node_positions_after_edit() {
    let mut pos = 0;
    while pos <= 3 {
      positions_after_edit_at(pos);
      pos += 1;
    }
  }

  /// the same on texts of exactly N bytes (concrete length: a heavier implementation that
  /// would exhaust the engine on symbolic-length text is still decided, DESIGN 3)
  fn display_exact<const N: usize>() {
    let mut buf = [b'a'; N];
    let mut i = 0;
    while i < N {
      if kani::any() {
        buf[i] = b'\n';
      }
      i += 1;
    }
    let len = N;
    let s: usize = kani::any();
    let e: usize = kani::any();
    let before: usize = kani::any();
    let after: usize = kani::any();
    kani::assume(s <= e && e <= len && before <= 2 && after <= 2);
    let src = as_str(&buf, len);
    let g = mk_grep(src, single_node(&buf[..len], s as u32, e as u32));
    let dc = g.root().display_context(before, after);
    let (lead, trail, line) = spec_context(&buf[..len], s, e, before, after);
    kani::cover!(lead > 0 && trail < len);
    kani::cover!(line > 0);
    assert!(dc.leading.as_bytes() == &buf[lead..s]);
    assert!(dc.trailing.as_bytes() == &buf[e..trail]);
    assert!(dc.matched.as_bytes() == &buf[s..e]);
    assert!(dc.start_line == line);
    std::mem::forget(g);
  }

  /// multi-byte text: the fixed 7-byte layout `x0 é x1 é x2` (x_i symbolic in {a, \n}), node
  /// range on character boundaries: byte offsets and character columns differ on every
  /// line that contains an `é` before the match
  #[kani::proof]
  #[kani::unwind(10)]
  fn c16_display_context_multibyte7() {
    let mut buf = [b'a', 0xC3, 0xA9, b'a', 0xC3, 0xA9, b'a'];
    if kani::any() {
      buf[0] = b'\n';
    }
    if kani::any() {
      buf[3] = b'\n';
    }
    if kani::any() {
      buf[6] = b'\n';
    }
    let len = 7;
    let s: usize = kani::any();
    let e: usize = kani::any();
    let before: usize = kani::any();
    let after: usize = kani::any();
    kani::assume(s <= e && e <= len && before <= 1 && after <= 1);
    kani::assume(is_boundary(&buf, len, s) && is_boundary(&buf, len, e));
    let src = as_str(&buf, len);
    let g = mk_grep(src, single_node(&buf[..len], s as u32, e as u32));
    let dc = g.root().display_context(before, after);
    let (lead, trail, line) = spec_context(&buf[..len], s, e, before, after);
    kani::cover!(before == 0 && s >= 3 && lead == 0);
    kani::cover!(before == 0 && lead > 0 && s > lead + 1);
    kani::cover!(line > 0);
    assert!(dc.leading.as_bytes() == &buf[lead..s]);
    assert!(dc.trailing.as_bytes() == &buf[e..trail]);
    assert!(dc.matched.as_bytes() == &buf[s..e]);
    assert!(dc.start_line == line);
    std::mem::forget(g);
  }

  #[kani::proof]
  #[kani::unwind(8)]
  fn c16_display_context_len3() {
    display_exact::<3>();
  }

  #[kani::proof]
  #[kani::unwind(8)]
  fn c16_display_context_len5() {
    display_exact::<5>();
  }

  #[kani::proof]
  #[kani::unwind(8)]
  fn c16_display_context_n6() {
    display::<6>();
  }

  #[kani::proof]
  #[kani::unwind(11)]
  fn c16_display_context_n9() {
    display::<9>();
  }
}
