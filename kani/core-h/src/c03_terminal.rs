//! C03-1 `terminal_step` and C03-4 `kinds_error_wildcard`: the per-node decision of
//! `MatchStrictness::{match_terminal, should_skip_trailing, should_skip_goal}` and
//! `kind_utils::are_kinds_matching`, against the decision table of the strictness
//! documentation (cst: nothing skipped; smart: unnamed candidates; ast: unnamed on both
//! sides; relaxed: + comments; signature: + text ignored when kinds agree).
use crate::c03_align::*;
use crate::common::*;
use ast_grep_core::verif_hooks::match_tree::{match_terminal, should_skip_goal, should_skip_trailing};
use ast_grep_core::matcher::{kind_utils, PatternNode};
use ast_grep_core::meta_var::MetaVariable;
use mock_ts::{kind_is_named, ERROR_KIND, K_CALL, K_COMMENT};

/// 0 MatchedBoth, 1 SkipBoth, 2 SkipGoal, 3 SkipCandidate, 4 NoMatch
pub fn table(goal: &Leaf, cand: &Leaf, s: u8) -> u8 {
  let kinds = goal.kind == cand.kind || goal.kind == ERROR_KIND;
  if kinds && (!goal.named || goal.text == cand.text) {
    return 0;
  }
  if s == 4 && kinds {
    return 0;
  }
  let skip_goal = s >= 2 && !goal.named;
  let skip_cand = match s {
    0 => false,
    1 | 2 => !cand.named,
    _ => !cand.named || cand.kind == K_COMMENT,
  };
  match (skip_goal, skip_cand) {
    (true, true) => 1,
    (true, false) => 2,
    (false, true) => 3,
    (false, false) => 4,
  }
}

#[cfg(test)]
mod tests {
  use super::*;
  #[test]
  fn smoke() {
    let goal = Leaf { kind: mock_ts::K_IDENT, named: true, text: b'x' };
    let cand = Leaf { kind: mock_ts::K_IDENT, named: true, text: b'y' };
    let mut cands = [cand; KMAX];
    cands[0] = cand;
    let mut src = [b' '; KMAX];
    let d = flat_tree(&cands, 1, K_CALL, &mut src);
    let g = mk_grep(as_str(&src, 1), d);
    let c = g.root().child(0).unwrap();
    for s in 0..5u8 {
      assert_eq!(match_terminal(&strictness_of(s), true, "x", goal.kind, &c), table(&goal, &cand, s));
    }
    // an ERROR candidate is not a wildcard
    let cand = Leaf { kind: ERROR_KIND, named: true, text: b'x' };
    let mut cands = [cand; KMAX];
    cands[0] = cand;
    let mut src = [b' '; KMAX];
    let d = flat_tree(&cands, 1, K_CALL, &mut src);
    let g = mk_grep(as_str(&src, 1), d);
    let c = g.root().child(0).unwrap();
    for s in 0..5u8 {
      assert_eq!(match_terminal(&strictness_of(s), true, "x", goal.kind, &c), table(&goal, &cand, s));
      assert_ne!(table(&goal, &cand, s), 0);
    }
  }
}

#[cfg(kani)]
mod proofs {
  use super::*;

  #[kani::proof]
  #[kani::unwind(8)]
  fn c03_terminal_step() {
    let s: u8 = kani::any();
    kani::assume(s < 5);
    let goal = any_leaf(true);
    // the candidate may be an ERROR node too: ERROR is a wildcard on the *pattern* side only
    let cand = any_leaf(true);
    let mut cands = [cand; KMAX];
    cands[0] = cand;
    let mut src = [b' '; KMAX];
    let d = flat_tree(&cands, 1, K_CALL, &mut src);
    let g = mk_grep(as_str(&src, 1), d);
    let c = g.root().child(0).unwrap();
    let st = strictness_of(s);
    let gt = [goal.text];
    kani::cover!(cand.kind == ERROR_KIND && goal.kind != ERROR_KIND);
    let got = match_terminal(&st, goal.named, as_str(&gt, 1), goal.kind, &c);
    let want = table(&goal, &cand, s);
    kani::cover!(want == 1);
    kani::cover!(want == 3 && s == 3 && cand.named);
    kani::cover!(want == 0 && s == 4 && goal.text != cand.text);
    assert!(got == want);
    // MatchedBoth => kinds agree (or goal is ERROR) and (unnamed or text equal or signature)
    if got == 0 {
      assert!(goal.kind == cand.kind || goal.kind == ERROR_KIND);
      assert!(!goal.named || goal.text == cand.text || s == 4);
    }
    // trailing candidates: cst/ast never, smart always, relaxed/signature trivia only
    let tr = should_skip_trailing(&st, &c);
    let want_tr = match s {
      0 | 2 => false,
      1 => true,
      _ => !cand.named || cand.kind == K_COMMENT,
    };
    assert!(tr == want_tr);
    std::mem::forget(g);
  }

  /// leftover goals: which pattern nodes may stay unmatched when candidates run out.
  /// Variant vectors (<= 2 goals over 6 variants) are enumerated by concrete loops (a
  /// `Vec<PatternNode>` with symbolic variants exhausts the back end); strictness and the
  /// `named` bits are symbolic.
  fn mk_goal(v: u8, named: bool, s: u8) -> (PatternNode, bool) {
    match v {
      0 => (PatternNode::MetaVar { meta_var: MetaVariable::Multiple }, s >= 1),
      1 => (PatternNode::MetaVar { meta_var: MetaVariable::MultiCapture("A".to_string()) }, s >= 1),
      2 => (PatternNode::MetaVar { meta_var: MetaVariable::Dropped(named) }, s >= 2 && !named),
      3 => (PatternNode::MetaVar { meta_var: MetaVariable::Capture("B".to_string(), named) }, s >= 2 && !named),
      4 => (
        PatternNode::Terminal { text: "x".to_string(), is_named: named, kind_id: 1 },
        s >= 2 && !named,
      ),
      _ => (PatternNode::Internal { kind_id: 3, children: Vec::new() }, false),
    }
  }

  #[kani::proof]
  #[kani::unwind(8)]
  fn c03_should_skip_goal() {
    let s: u8 = kani::any();
    kani::assume(s < 5);
    let st = strictness_of(s);
    let n0: bool = kani::any();
    let n1: bool = kani::any();
    let mut v0 = 0;
    while v0 < 6 {
      let mut v1 = 0;
      while v1 < 6 {
        let (g0, k0) = mk_goal(v0, n0, s);
        let (g1, k1) = mk_goal(v1, n1, s);
        let goals = vec![g0, g1];
        let (all, consumed) = should_skip_goal(&st, &goals);
        let want_consumed = if !k0 { 0 } else if !k1 { 1 } else { 2 };
        assert!(all == (k0 && k1) && consumed == want_consumed);
        // one-goal prefix
        let (all1, consumed1) = should_skip_goal(&st, &goals[..1]);
        assert!(all1 == k0 && consumed1 == k0 as usize);
        if v0 == 4 && v1 == 0 {
          kani::cover!(all);
          kani::cover!(!all && consumed == 0);
        }
        std::mem::forget(goals);
        v1 += 1;
      }
      v0 += 1;
    }
    let (all0, c0) = should_skip_goal(&st, &[]);
    assert!(all0 && c0 == 0);
  }

  #[kani::proof]
  fn c03_kinds_error_wildcard() {
    let g: u16 = kani::any();
    let c: u16 = kani::any();
    let r = kind_utils::are_kinds_matching(g, c);
    kani::cover!(r && g != c);
    assert!(r == (g == c || g == 65535));
  }
}
