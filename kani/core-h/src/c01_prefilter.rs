//! C01 `literal-substring prefilter`: the CLI skips a file when `Pattern::fixed_string()`
//! (real `matcher/pattern.rs`) does not occur in the file text.  That is only sound if every
//! node the pattern can match contains the string:
//!
//!   pattern matches node X   ==>   X.text() contains pattern.fixed_string()
//!
//! Kernel decided here: a pattern that is one terminal token (symbolic kind / named bit /
//! one-byte text, any strictness) against one candidate leaf (symbolic kind / text); the
//! match goes through the real `Pattern::match_node_with_env`.
use crate::c03_align::*;
use crate::common::*;
use ast_grep_core::matcher::PatternNode;
use ast_grep_core::meta_var::MetaVarEnv;
use ast_grep_core::Matcher;
use mock_ts::K_CALL;
use std::borrow::Cow;

/// (matched, fixed string is empty, first byte of the fixed string)
pub fn real(goal: &Leaf, cand: &Leaf, s: u8) -> (bool, bool, u8) {
  let node = PatternNode::Terminal {
    text: as_str(&[goal.text], 1).to_string(),
    is_named: goal.named,
    kind_id: goal.kind,
  };
  // built from parts: `Pattern::from(node)` runs `extract_meta_var` on document text, on which
  // Kani 0.68 reports spurious allocator failures (DESIGN 3)
  let p: ast_grep_core::Pattern<HL> = ast_grep_core::verif_hooks::pattern::pattern_from_parts(node, None, strictness_of(s));
  let mut cands = [*cand; KMAX];
  cands[0] = *cand;
  let mut src = [b' '; KMAX];
  let d = flat_tree(&cands, 1, K_CALL, &mut src);
  let g = mk_grep(as_str(&src, 1), d);
  let c = g.root().child(0).unwrap();
  let env = MetaVarEnv::new();
  let mut cow = Cow::Borrowed(&env);
  let m = p.match_node_with_env(c, &mut cow).is_some();
  let fixed = p.fixed_string();
  let r = (m, fixed.is_empty(), if fixed.is_empty() { 0 } else { fixed.as_bytes()[0] });
  std::mem::forget(fixed);
  std::mem::forget(cow);
  std::mem::forget(env);
  std::mem::forget(g);
  std::mem::forget(p);
  r
}

/// pattern = an internal node (kind `call`) with ONE terminal child, candidate = FLAT(k):
/// a `call` node with k leaves.  Returns (matched, fixed is empty, fixed's byte, candidate text)
pub fn real_internal(goal: &Leaf, cands: &[Leaf; KMAX], k: usize, s: u8) -> (bool, bool, u8, [u8; KMAX]) {
  let node = PatternNode::Internal {
    kind_id: K_CALL,
    children: vec![PatternNode::Terminal {
      text: as_str(&[goal.text], 1).to_string(),
      is_named: goal.named,
      kind_id: goal.kind,
    }],
  };
  let p: ast_grep_core::Pattern<HL> =
    ast_grep_core::verif_hooks::pattern::pattern_from_parts(node, None, strictness_of(s));
  let mut src = [b' '; KMAX];
  let d = flat_tree(cands, k, K_CALL, &mut src);
  let g = mk_grep(as_str(&src, k), d);
  let env = MetaVarEnv::new();
  let mut cow = Cow::Borrowed(&env);
  let m = p.match_node_with_env(g.root(), &mut cow).is_some();
  let fixed = p.fixed_string();
  let r = (m, fixed.is_empty(), if fixed.is_empty() { 0 } else { fixed.as_bytes()[0] }, src);
  std::mem::forget(fixed);
  std::mem::forget(cow);
  std::mem::forget(env);
  std::mem::forget(g);
  std::mem::forget(p);
  r
}

#[cfg(test)]
mod tests {
  use super::*;
  #[test]
  fn internal_unnamed_goal_skipped_under_ast() {
    let goal = Leaf { kind: mock_ts::K_PUNCT_A, named: false, text: anon_text(mock_ts::K_PUNCT_A) };
    let x = Leaf { kind: mock_ts::K_IDENT, named: true, text: b'x' };
    let cands = [x; KMAX];
    for s in 0..5u8 {
      for k in 1..=2 {
        let (m, empty, b, text) = real_internal(&goal, &cands, k, s);
        println!("s={s} k={k} m={m} empty={empty}");
        assert!(!m || empty || text[..k].contains(&b));
      }
    }
  }
  #[test]
  fn smoke() {
    let goal = Leaf { kind: mock_ts::K_IDENT, named: true, text: b'x' };
    let same = Leaf { kind: mock_ts::K_IDENT, named: true, text: b'x' };
    let other = Leaf { kind: mock_ts::K_IDENT, named: true, text: b'y' };
    for s in 0..5u8 {
      let (m, empty, b) = real(&goal, &same, s);
      assert!(m && (empty || b == b'x'));
      let (m, empty, _) = real(&goal, &other, s);
      // text differs: only `signature` matches, and then nothing may be required of the text
      assert_eq!(m, s == 4);
      if m {
        assert!(empty, "signature ignores text: no literal may be required");
      }
    }
  }
}

#[cfg(kani)]
mod proofs {
  use super::*;

  fn internal(k: usize) {
    let goal = any_leaf(false);
    let mut cands = [goal; KMAX];
    let mut i = 0;
    while i < KMAX {
      if i < k {
        cands[i] = any_leaf(false);
      }
      i += 1;
    }
    let s: u8 = kani::any();
    kani::assume(s < 5);
    let (m, empty, b, text) = real_internal(&goal, &cands, k, s);
    let mut contains = false;
    let mut i = 0;
    while i < KMAX {
      if i < k && text[i] == b {
        contains = true;
      }
      i += 1;
    }
    kani::cover!(m && !empty);
    kani::cover!(m && empty);
    kani::cover!(!m);
    assert!(!m || empty || contains, "a matched node contains the pattern's fixed string");
  }
  #[kani::proof]
  #[kani::unwind(8)]
  fn c01_prefilter_internal_k1() {
    internal(1);
  }
  #[kani::proof]
  #[kani::unwind(8)]
  fn c01_prefilter_internal_k2() {
    internal(2);
  }

  #[kani::proof]
  #[kani::unwind(8)]
  fn c01_prefilter_terminal() {
    let goal = any_leaf(true);
    let cand = any_leaf(false);
    let s: u8 = kani::any();
    kani::assume(s < 5);
    let (m, empty, b) = real(&goal, &cand, s);
    kani::cover!(m && !empty);
    kani::cover!(m && s == 4 && goal.text != cand.text);
    kani::cover!(!m && goal.kind == cand.kind);
    assert!(!m || empty || b == cand.text, "a matched node contains the pattern's fixed string");
  }
}
