//! C01 `literal-substring prefilter`: the CLI skips a file when `Pattern::fixed_string()`
//! (real `matcher/pattern.rs`) does not occur in the file text.  That is only sound if every
//! node the pattern can match contains the string:
//!
//!   pattern matches node X   ==>   X.text() contains pattern.fixed_string()
//!
//! Kernel decided here: a pattern that is one terminal token (symbolic kind / named bit /
//! one-byte text, any strictness) against one candidate leaf (symbolic kind / text); the
//! match goes through the real `Pattern::match_node_with_env`.
use crate::c03_align::*;
use crate::common::*;
use ast_grep_core::matcher::PatternNode;
use ast_grep_core::meta_var::MetaVarEnv;
use ast_grep_core::Matcher;
use mock_ts::K_CALL;
use std::borrow::Cow;

/// (matched, fixed string is empty, first byte of the fixed string)
pub fn real(goal: &Leaf, cand: &Leaf, s: u8) -> (bool, bool, u8) {
  let node = PatternNode::Terminal {
    text: as_str(&[goal.text], 1).to_string(),
    is_named: goal.named,
    kind_id: goal.kind,
  };
  // built from parts: `Pattern::from(node)` runs `extract_meta_var` on document text, on which
  // Kani 0.68 reports spurious allocator failures (DESIGN 3)
  let p: ast_grep_core::Pattern<HL> = ast_grep_core::verif_hooks::pattern::pattern_from_parts(node, None, strictness_of(s));
  let mut cands = [*cand; KMAX];
  cands[0] = *cand;
  let mut src = [b' '; KMAX];
  let d = flat_tree(&cands, 1, K_CALL, &mut src);
  let g = mk_grep(as_str(&src, 1), d);
  let c = g.root().child(0).unwrap();
  let env = MetaVarEnv::new();
  let mut cow = Cow::Borrowed(&env);
  let m = p.match_node_with_env(c, &mut cow).is_some();
  let fixed = p.fixed_string();
  let r = (m, fixed.is_empty(), if fixed.is_empty() { 0 } else { fixed.as_bytes()[0] });
  std::mem::forget(fixed);
  std::mem::forget(cow);
  std::mem::forget(env);
  std::mem::forget(g);
  std::mem::forget(p);
  r
}

/// one-token pattern vs one leaf: (matched, potential_kinds() is None, the set contains the
/// candidate's kind)
pub fn real_kinds(goal: &Leaf, cand: &Leaf, s: u8) -> (bool, bool, bool) {
  let node = PatternNode::Terminal {
    text: as_str(&[goal.text], 1).to_string(),
    is_named: goal.named,
    kind_id: goal.kind,
  };
  let p: ast_grep_core::Pattern<HL> =
    ast_grep_core::verif_hooks::pattern::pattern_from_parts(node, None, strictness_of(s));
  let mut cands = [*cand; KMAX];
  cands[0] = *cand;
  let mut src = [b' '; KMAX];
  let d = flat_tree(&cands, 1, K_CALL, &mut src);
  let g = mk_grep(as_str(&src, 1), d);
  let c = g.root().child(0).unwrap();
  let env = MetaVarEnv::new();
  let mut cow = Cow::Borrowed(&env);
  let m = p.match_node_with_env(c, &mut cow).is_some();
  let kinds = p.potential_kinds();
  let r = match &kinds {
    None => (m, true, false),
    Some(set) => (m, false, set.contains(cand.kind as usize)),
  };
  std::mem::forget(kinds);
  std::mem::forget(cow);
  std::mem::forget(env);
  std::mem::forget(g);
  std::mem::forget(p);
  r
}

/// pattern = an internal node (kind `call`) with ONE terminal child, candidate = FLAT(k):
/// a `call` node with k leaves.  Returns (matched, fixed is empty, fixed's byte, candidate text)
pub fn real_internal(goal: &Leaf, cands: &[Leaf; KMAX], k: usize, s: u8) -> (bool, bool, u8, [u8; KMAX]) {
  let node = PatternNode::Internal {
    kind_id: K_CALL,
    children: vec![PatternNode::Terminal {
      text: as_str(&[goal.text], 1).to_string(),
      is_named: goal.named,
      kind_id: goal.kind,
    }],
  };
  let p: ast_grep_core::Pattern<HL> =
    ast_grep_core::verif_hooks::pattern::pattern_from_parts(node, None, strictness_of(s));
  let mut src = [b' '; KMAX];
  let d = flat_tree(cands, k, K_CALL, &mut src);
  let g = mk_grep(as_str(&src, k), d);
  let env = MetaVarEnv::new();
  let mut cow = Cow::Borrowed(&env);
  let m = p.match_node_with_env(g.root(), &mut cow).is_some();
  let fixed = p.fixed_string();
  let r = (m, fixed.is_empty(), if fixed.is_empty() { 0 } else { fixed.as_bytes()[0] }, src);
  std::mem::forget(fixed);
  std::mem::forget(cow);
  std::mem::forget(env);
  std::mem::forget(g);
  std::mem::forget(p);
  r
}

/// `Pattern::fixed_string()` of the nested pattern  call[ call[ T1 T2 ] T3 ]  (texts of
/// distinct lengths 4, 2, 3; named bits given) at strictness `s`: the length of the result.
/// A token may only be required of the file text if the strictness level really compares its
/// text: never under `signature`, only named tokens under `ast` / `relaxed` (unnamed pattern
/// tokens can be skipped at ANY depth: `should_skip_goal`, decided by c03_should_skip_goal).
pub fn nested_fixed_len(named: [bool; 3], s: u8) -> usize {
  nested_fixed_len_w(named, s, true)
}

/// `with_t2 == false`: the lighter pattern  call[ call[ T1 ] T3 ]
pub fn nested_fixed_len_w(named: [bool; 3], s: u8, with_t2: bool) -> usize {
  let t = |text: &str, is_named: bool, kind: u16| PatternNode::Terminal { text: text.to_string(), is_named, kind_id: kind };
  let inner = PatternNode::Internal {
    kind_id: K_CALL,
    children: if with_t2 {
      vec![t("kkkk", named[0], mock_ts::K_IDENT), t("xx", named[1], mock_ts::K_NUMBER)]
    } else {
      vec![t("kk", named[0], mock_ts::K_IDENT)]
    },
  };
  let node = PatternNode::Internal { kind_id: K_CALL, children: vec![inner, t(if with_t2 { "yyy" } else { "y" }, named[2], mock_ts::K_IDENT)] };
  let p: ast_grep_core::Pattern<HL> =
    ast_grep_core::verif_hooks::pattern::pattern_from_parts(node, None, strictness_of(s));
  let fixed = p.fixed_string();
  let n = fixed.len();
  std::mem::forget(fixed);
  std::mem::forget(p);
  n
}

/// soundness only: the result is empty or the text of a token whose text the level compares
/// (an implementation that requires *less* than the longest such token is still correct)
pub fn nested_len_allowed(got: usize, named: [bool; 3], s: u8, with_t2: bool) -> bool {
  let lens = if with_t2 { [4usize, 2, 3] } else { [2usize, 0, 1] };
  if got == 0 {
    return true;
  }
  let mut ok = false;
  let mut i = 0;
  while i < 3 {
    let required = match s {
      0 | 1 => true,
      2 | 3 => named[i],
      _ => false,
    };
    if required && lens[i] != 0 && lens[i] == got {
      ok = true;
    }
    i += 1;
  }
  ok
}

/// the smallest nested pattern  call[ call[ T1 ] ]  (T1 = "kk"): length of fixed_string()
pub fn nested_one_fixed_len(named: bool, s: u8) -> usize {
  let t1 = PatternNode::Terminal { text: "kk".to_string(), is_named: named, kind_id: mock_ts::K_IDENT };
  let inner = PatternNode::Internal { kind_id: K_CALL, children: vec![t1] };
  let node = PatternNode::Internal { kind_id: K_CALL, children: vec![inner] };
  let p: ast_grep_core::Pattern<HL> =
    ast_grep_core::verif_hooks::pattern::pattern_from_parts(node, None, strictness_of(s));
  let fixed = p.fixed_string();
  let n = fixed.len();
  std::mem::forget(fixed);
  std::mem::forget(p);
  n
}

pub fn nested_fixed_len_spec(named: [bool; 3], s: u8) -> usize {
  nested_fixed_len_spec_w(named, s, true)
}
pub fn nested_fixed_len_spec_w(named: [bool; 3], s: u8, with_t2: bool) -> usize {
  let lens = if with_t2 { [4usize, 2, 3] } else { [2usize, 0, 1] };
  let mut best = 0;
  let mut i = 0;
  while i < 3 {
    let required = match s {
      0 | 1 => true,
      2 | 3 => named[i],
      _ => false,
    };
    if required && lens[i] > best {
      best = lens[i];
    }
    i += 1;
  }
  best
}

#[cfg(test)]
mod tests {
  use super::*;
  #[test]
  fn nested_native() {
    for s in 0..5u8 {
      for named in [true, false] {
        let req = match s { 0 | 1 => true, 2 | 3 => named, _ => false };
        assert_eq!(nested_one_fixed_len(named, s), if req { 2 } else { 0 });
      }
    }
    for s in 0..5u8 {
      for m in 0..8u8 {
        let named = [m & 1 != 0, m & 2 != 0, m & 4 != 0];
        assert_eq!(nested_fixed_len(named, s), nested_fixed_len_spec(named, s), "{named:?} {s}");
      }
    }
  }
  #[test]
  fn internal_unnamed_goal_skipped_under_ast() {
    let goal = Leaf { kind: mock_ts::K_PUNCT_A, named: false, text: anon_text(mock_ts::K_PUNCT_A) };
    let x = Leaf { kind: mock_ts::K_IDENT, named: true, text: b'x' };
    let cands = [x; KMAX];
    for s in 0..5u8 {
      for k in 1..=2 {
        let (m, empty, b, text) = real_internal(&goal, &cands, k, s);
        println!("s={s} k={k} m={m} empty={empty}");
        assert!(!m || empty || text[..k].contains(&b));
      }
    }
  }
  #[test]
  fn smoke() {
    let goal = Leaf { kind: mock_ts::K_IDENT, named: true, text: b'x' };
    let same = Leaf { kind: mock_ts::K_IDENT, named: true, text: b'x' };
    let other = Leaf { kind: mock_ts::K_IDENT, named: true, text: b'y' };
    for s in 0..5u8 {
      let (m, empty, b) = real(&goal, &same, s);
      assert!(m && (empty || b == b'x'));
      let (m, empty, _) = real(&goal, &other, s);
      // text differs: only `signature` matches, and then nothing may be required of the text
      assert_eq!(m, s == 4);
      if m {
        assert!(empty, "signature ignores text: no literal may be required");
      }
    }
  }
}

#[cfg(kani)]
mod proofs {
  use super::*;

  #[kani::proof]
  #[kani::unwind(8)]
  fn c01_prefilter_nested_tokens() {
    let named: [bool; 3] = [kani::any(), kani::any(), kani::any()];
    let s: u8 = kani::any();
    kani::assume(s < 5);
    let got = nested_fixed_len(named, s);
    let want = nested_fixed_len_spec(named, s);
    kani::cover!(want == 4 && s == 2);
    kani::cover!(want == 2);
    kani::cover!(want == 0 && s == 3);
    kani::cover!(got == 4);
    assert!(nested_len_allowed(got, named, s, true), "fixed_string only draws on tokens whose text the strictness level compares");
  }

  #[kani::proof]
  #[kani::unwind(8)]
  fn c01_prefilter_nested_one_token() {
    let named: bool = kani::any();
    let s: u8 = kani::any();
    kani::assume(s < 5);
    let got = nested_one_fixed_len(named, s);
    let required = match s {
      0 | 1 => true,
      2 | 3 => named,
      _ => false,
    };
    kani::cover!(required && s == 2);
    kani::cover!(!required && s == 3);
    kani::cover!(got == 2);
    assert!(got == 0 || (required && got == 2), "fixed_string only draws on tokens whose text the strictness level compares");
  }

  #[kani::proof]
  #[kani::unwind(8)]
  fn c01_prefilter_nested_two_tokens() {
    let named: [bool; 3] = [kani::any(), false, kani::any()];
    let s: u8 = kani::any();
    kani::assume(s < 5);
    let got = nested_fixed_len_w(named, s, false);
    let want = nested_fixed_len_spec_w(named, s, false);
    kani::cover!(want == 2 && s == 2);
    kani::cover!(want == 1 && s == 3);
    kani::cover!(want == 0 && s == 3);
    kani::cover!(got == 2);
    assert!(nested_len_allowed(got, named, s, false), "fixed_string only draws on tokens whose text the strictness level compares");
  }

  fn internal(k: usize) {
    let goal = any_leaf(false);
    let mut cands = [goal; KMAX];
    let mut i = 0;
    while i < KMAX {
      if i < k {
        cands[i] = any_leaf(false);
      }
      i += 1;
    }
    let s: u8 = kani::any();
    kani::assume(s < 5);
    let (m, empty, b, text) = real_internal(&goal, &cands, k, s);
    let mut contains = false;
    let mut i = 0;
    while i < KMAX {
      if i < k && text[i] == b {
        contains = true;
      }
      i += 1;
    }
    kani::cover!(m && !empty);
    kani::cover!(m && empty);
    kani::cover!(!m);
    assert!(!m || empty || contains, "a matched node contains the pattern's fixed string");
  }
  #[kani::proof]
  #[kani::unwind(8)]
  fn c01_prefilter_internal_k1() {
    internal(1);
  }
  #[kani::proof]
  #[kani::unwind(8)]
  fn c01_prefilter_internal_k2() {
    internal(2);
  }

  /// kind dispatch of `FindAllNodes` for one-token patterns: a node the pattern matches is
  /// never outside `potential_kinds()`.  Goal kinds exclude ERROR here (a `BitSet` holding
  /// 65535 grows by 2048 words: out of the unwinding bound).
  #[kani::proof]
  #[kani::unwind(8)]
  fn c01_potential_kinds_terminal() {
    let goal = any_leaf(false);
    let cand = any_leaf(false);
    let s: u8 = kani::any();
    kani::assume(s < 5);
    let (m, none, contains) = real_kinds(&goal, &cand, s);
    kani::cover!(m);
    kani::cover!(!m && !none && !contains);
    assert!(!m || none || contains, "a matched node's kind is in the pattern's potential kinds");
  }

  #[kani::proof]
  #[kani::unwind(8)]
  fn c01_prefilter_terminal() {
    let goal = any_leaf(true);
    let cand = any_leaf(false);
    let s: u8 = kani::any();
    kani::assume(s < 5);
    let (m, empty, b) = real(&goal, &cand, s);
    kani::cover!(m && !empty);
    kani::cover!(m && s == 4 && goal.text != cand.text);
    kani::cover!(!m && goal.kind == cand.kind);
    assert!(!m || empty || b == cand.text, "a matched node contains the pattern's fixed string");
  }
}
