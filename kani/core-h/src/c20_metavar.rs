//! C20-1 `metavar_spelling`: `Language::extract_meta_var` (real `meta_var.rs`) against the
//! specification table of the property, for every string up to N bytes.
use crate::common::*;
use ast_grep_core::language::Language;
use ast_grep_core::meta_var::MetaVariable;

fn is_first(c: u8) -> bool {
  c.is_ascii_uppercase() || c == b'_'
}
fn is_rest(c: u8) -> bool {
  is_first(c) || c.is_ascii_digit()
}

/// What a spelling means, written from the property text:
/// `$A` named capture, `$$A` any-node capture, `$_X` non-capturing (named), `$$_X`
/// non-capturing (any), `$$$` / `$$$_X` anonymous ellipsis, `$$$A` named ellipsis;
/// NAME = [A-Z_][A-Z_0-9]*; everything else is not a hole.
#[derive(PartialEq, Eq, Debug)]
pub enum Spec<'a> {
  NotAHole,
  Capture(&'a [u8], bool),
  Dropped(bool),
  Multiple,
  MultiCapture(&'a [u8]),
}

pub fn spec(s: &[u8], sigil: u8) -> Spec<'_> {
  let mut sigils = 0;
  while sigils < s.len() && sigils < 3 && s[sigils] == sigil {
    sigils += 1;
  }
  if sigils == 0 {
    return Spec::NotAHole;
  }
  let name = &s[sigils..];
  let mut all_rest = true;
  let mut i = 0;
  while i < name.len() {
    if !is_rest(name[i]) {
      all_rest = false;
    }
    i += 1;
  }
  if sigils == 3 {
    if name.is_empty() {
      return Spec::Multiple;
    }
    if !all_rest {
      return Spec::NotAHole;
    }
    if name[0] == b'_' {
      return Spec::Multiple;
    }
    // NB: `$$$1` is accepted by the reference implementation's documented grammar
    // for ellipsis names ([A-Z_0-9]*); the property only fixes `$$$A`.
    return Spec::MultiCapture(name);
  }
  if name.is_empty() || !is_first(name[0]) || !all_rest {
    return Spec::NotAHole;
  }
  let named = sigils == 1;
  if name[0] == b'_' {
    Spec::Dropped(named)
  } else {
    Spec::Capture(name, named)
  }
}

pub fn agrees(got: &Option<MetaVariable>, want: &Spec) -> bool {
  match (got, want) {
    (None, Spec::NotAHole) => true,
    (Some(MetaVariable::Capture(n, named)), Spec::Capture(m, wn)) => {
      n.as_bytes() == *m && named == wn
    }
    (Some(MetaVariable::Dropped(named)), Spec::Dropped(wn)) => named == wn,
    (Some(MetaVariable::Multiple), Spec::Multiple) => true,
    (Some(MetaVariable::MultiCapture(n)), Spec::MultiCapture(m)) => n.as_bytes() == *m,
    _ => false,
  }
}

#[cfg(test)]
mod tests {
  use super::*;
  #[test]
  fn spec_table() {
    let l = HL('$');
    for s in ["$A", "$$A", "$_", "$$_", "$$$", "$$$A", "$$$_X", "$a", "$1", "$", "$$", "A", "$$$$", "$A_1", "$$$1"] {
      assert!(agrees(&l.extract_meta_var(s), &spec(s.as_bytes(), b'$')), "{s}");
    }
  }
}

#[cfg(kani)]
mod proofs {
  use super::*;

  fn check<const N: usize>() {
    let (buf, len) = any_bytes::<N, 6>(b"$AZa0_");
    let s = as_str(&buf, len);
    let got = HL('$').extract_meta_var(s);
    let want = spec(&buf[..len], b'$');
    // vacuity witnesses: every class of the table is reachable
    kani::cover!(matches!(want, Spec::Capture(_, true)));
    kani::cover!(matches!(want, Spec::Capture(_, false)));
    kani::cover!(matches!(want, Spec::Dropped(false)));
    kani::cover!(matches!(want, Spec::MultiCapture(_)));
    kani::cover!(matches!(want, Spec::NotAHole) && len >= 2);
    assert!(agrees(&got, &want));
  }

  /// the same table for leaf texts spelled with a language's *expando* character (what
  /// `pre_process_pattern` turns the sigil into: `µ` 2 bytes, U+10000 4 bytes, `z`): every
  /// string of <= NCH characters over {expando, A, Z, a, 0, _}
  fn check_expando<const NCH: usize, const NB: usize>(e: char) {
    let mut eb = [0u8; 4];
    let ew = e.encode_utf8(&mut eb).len();
    let nch: usize = kani::any();
    kani::assume(nch <= NCH);
    let mut buf = [0u8; NB];
    let mut dollar = [0u8; NCH];
    let mut len = 0;
    let mut i = 0;
    while i < NCH {
      if i < nch {
        let c = any_of(b"$AZa0_");
        dollar[i] = c;
        if c == b'$' {
          let mut k = 0;
          while k < 4 {
            if k < ew {
              buf[len + k] = eb[k];
            }
            k += 1;
          }
          len += ew;
        } else {
          buf[len] = c;
          len += 1;
        }
      }
      i += 1;
    }
    let s = as_str(&buf, len);
    let got = HL(e).extract_meta_var(s);
    let want = spec(&dollar[..nch], b'$');
    kani::cover!(matches!(want, Spec::Capture(_, true)));
    kani::cover!(matches!(want, Spec::Dropped(false)));
    kani::cover!(matches!(want, Spec::MultiCapture(_)));
    kani::cover!(matches!(want, Spec::NotAHole) && nch >= 2);
    assert!(agrees(&got, &want));
  }

  #[kani::proof]
  #[kani::unwind(12)]
  fn c20_metavar_spelling_expando_mu_n5() {
    check_expando::<5, 10>('\u{b5}');
  }

  #[kani::proof]
  #[kani::unwind(7)]
  fn c20_metavar_spelling_expando_z_n5() {
    check_expando::<5, 5>('z');
  }

  #[kani::proof]
  #[kani::unwind(22)]
  fn c20_metavar_spelling_expando_u10000_n5() {
    check_expando::<5, 20>('\u{10000}');
  }

  #[kani::proof]
  #[kani::unwind(7)]
  fn c20_metavar_spelling_n5() {
    check::<5>();
  }

  #[kani::proof]
  #[kani::unwind(9)]
  fn c20_metavar_spelling_n7() {
    check::<7>();
  }

  #[kani::proof]
  #[kani::unwind(11)]
  fn c20_metavar_spelling_n9() {
    check::<9>();
  }
}
