#!/usr/bin/env python3
"""Check driver for /verif (see DESIGN.md §3.4).

  ./check <PROPERTY> [--tier quick|thorough] [--jobs N] [--only REGEX] [--keep-going]

For every harness registered for the property (tools/registry.py) it rebuilds the harness
crate against /repo's current working tree, runs Kani/CBMC (or a solver script) under a
time and memory cap, parses the verdict, replays counterexamples natively before
reporting them, applies /verif/known_findings.txt and writes /verif/evidence/<ID>.json.

Exit 0: every harness holds within its bounds (known findings printed as KNOWN-FINDING).
Exit 1: a confirmed violation (a `VIOLATION property=<id> replay=<path>` line is printed).
Exit 2: inconclusive (timeout, OOM, unwinding bound too small, vacuous harness, tool error).
"""
import argparse
import concurrent.futures as cf
import hashlib
import json
import os
import re
import shutil
import signal
import subprocess
import sys
import time

VERIF = os.path.dirname(os.path.dirname(os.path.abspath(__file__)))
sys.path.insert(0, os.path.join(VERIF, "tools"))
import registry  # noqa: E402

REPO = os.environ.get("VERIF_REPO", "/repo")
WORK = os.path.join(VERIF, ".work")
LOGS = os.path.join(WORK, "logs" + ("" if os.environ.get("VERIF_REPO", "/repo") == "/repo" else "-" + hashlib.sha1(os.environ["VERIF_REPO"].encode()).hexdigest()[:8]))
KF_FILE = os.path.join(VERIF, "known_findings.txt")

ENV = dict(os.environ)
ENV["CARGO_NET_OFFLINE"] = "true"
ENV.pop("RUSTFLAGS", None)


def sh(cmd, **kw):
    return subprocess.run(cmd, stdout=subprocess.PIPE, stderr=subprocess.STDOUT, text=True, env=ENV, **kw)


def load_known_findings():
    """lines: `finding: property=<id> key=<key> <text>` / `fixed: property=<id> <commit> <text>`"""
    findings = {}
    fixed = []
    if os.path.exists(KF_FILE):
        for line in open(KF_FILE):
            line = line.strip()
            if not line or line.startswith("#"):
                continue
            m = re.match(r"finding:\s+property=(\S+)\s+key=(\S+)\s+(.*)", line)
            if m:
                findings[(m.group(1), m.group(2))] = m.group(3)
                continue
            m = re.match(r"fixed:\s+property=(\S+)\s+(\S+)\s+(.*)", line)
            if m:
                fixed.append((m.group(1), m.group(2), m.group(3)))
    return findings, fixed


REPO_TAG = "" if REPO == "/repo" else "-" + hashlib.sha1(REPO.encode()).hexdigest()[:8]
KANI_DIR = os.path.join(VERIF, "kani") if not REPO_TAG else os.path.join(WORK, "kani" + REPO_TAG)
_prepared = set()


def prepare_crate(crate):
    """sync Cargo.lock from the repository (harness crates resolve the same dependency versions).
    With VERIF_REPO=<other checkout> (used to try seeded changes in a scratch worktree without
    touching /repo) the harness crates are copied to .work/ with their path dependencies
    pointing at that checkout, and get their own target directories."""
    if REPO_TAG and KANI_DIR not in _prepared:
        _prepared.add(KANI_DIR)
        shutil.rmtree(KANI_DIR, ignore_errors=True)
        shutil.copytree(os.path.join(VERIF, "kani"), KANI_DIR, ignore=shutil.ignore_patterns("target", "Cargo.lock"))
        for root, _, files in os.walk(KANI_DIR):
            for f in files:
                if f == "Cargo.toml":
                    fp = os.path.join(root, f)
                    t = open(fp).read().replace('"/repo/', '"' + REPO.rstrip("/") + "/")
                    open(fp, "w").write(t)
    cdir = os.path.join(KANI_DIR, crate)
    src = os.path.join(REPO, "Cargo.lock")
    dst = os.path.join(cdir, "Cargo.lock")
    if not os.path.exists(dst):
        shutil.copy(src, dst)
    return cdir


def run_with_caps(cmd, cwd, log_path, timeout_s, mem_gb):
    """run under ulimit -v and a wall-clock cap; kill the whole process group on timeout"""
    os.makedirs(os.path.dirname(log_path), exist_ok=True)
    t0 = time.time()
    with open(log_path, "w") as log:
        pre = f"ulimit -v {int(mem_gb * 1024 * 1024)}; exec " if mem_gb else "exec "
        p = subprocess.Popen(
            ["bash", "-c", pre + " ".join(shquote(c) for c in cmd)],
            cwd=cwd, stdout=log, stderr=subprocess.STDOUT, env=ENV, start_new_session=True)
        try:
            rc = p.wait(timeout=timeout_s)
            timed_out = False
        except subprocess.TimeoutExpired:
            timed_out = True
            try:
                os.killpg(p.pid, signal.SIGKILL)
            except ProcessLookupError:
                pass
            p.wait()
            rc = -9
    return rc, timed_out, time.time() - t0


import fcntl
import contextlib

SLOTS = int(os.environ.get("VERIF_SLOTS", "7"))


@contextlib.contextmanager
def solver_slot():
    """machine-wide cap on concurrently running solver processes (each CBMC instance needs
    3-8 GB during symbolic execution; several ./check invocations may run side by side)"""
    d = os.path.join(WORK, "slots")
    os.makedirs(d, exist_ok=True)
    fh = None
    while fh is None:
        for i in range(SLOTS):
            f = open(os.path.join(d, f"slot_{i}"), "w")
            try:
                fcntl.flock(f, fcntl.LOCK_EX | fcntl.LOCK_NB)
                fh = f
                break
            except OSError:
                f.close()
        if fh is None:
            time.sleep(3)
    try:
        yield
    finally:
        fcntl.flock(fh, fcntl.LOCK_UN)
        fh.close()


def shquote(s):
    return "'" + s.replace("'", "'\\''") + "'"


CHECK_RE = re.compile(
    r"Check \d+: (?P<name>.+)\n\s+- Status: (?P<status>\w+)\n\s+- Description: \"(?P<desc>.*)\"\n\s+- Location: (?P<loc>.*)")


def short_fn(f):
    """readable name of a function from a check location: generic arguments stripped;
    `<T as Trait>::method` becomes `Trait::method [for T]`"""
    strip = lambda x: re.sub(r"<[^<>]*>", "", re.sub(r"<[^<>]*>", "", re.sub(r"<[^<>]*>", "", x))).replace("::::", "::")
    m = re.match(r"<(.+) as ([^>]+(?:<.*>)?)>::(\w+)", f)
    if m:
        ty, tr, meth = strip(m.group(1)), strip(m.group(2)), m.group(3)
        return f"{tr}::{meth} [for {ty}]"[:140]
    return strip(f).rstrip(":")[:140]


def parse_kani_log(text):
    res = {"verdict": None, "checks": 0, "failed": 0, "covers_sat": None, "covers_total": None,
           "solver_s": None, "failures": [], "unwind_failed": False, "functions": [],
           "unsupported_reachable": False, "oom": False}
    m = re.search(r"VERIFICATION:- (\w+)", text)
    if m:
        res["verdict"] = m.group(1)
    m = re.search(r"\*\* (\d+) of (\d+) failed", text)
    if m:
        res["failed"], res["checks"] = int(m.group(1)), int(m.group(2))
    m = re.search(r"\*\* (\d+) of (\d+) cover properties satisfied", text)
    if m:
        res["covers_sat"], res["covers_total"] = int(m.group(1)), int(m.group(2))
    m = re.search(r"Verification Time: ([\d.]+)s", text)
    if m:
        res["solver_s"] = float(m.group(1))
    if "Status: ERROR" in text or "ran out of memory" in text or "run out of memory" in text or "std::bad_alloc" in text or "Out of memory" in text or "memory allocation of" in text:
        res["oom"] = True
    funcs = set()
    for m in CHECK_RE.finditer(text):
        loc = m.group("loc")
        fm = re.search(r"in function (.*)$", loc)
        if fm:
            f = fm.group(1)
            if "ast_grep_" in f:
                funcs.add(short_fn(f))
        if m.group("status") == "FAILURE":
            desc = m.group("desc")
            if m.group("name").startswith("__rust_dealloc."):
                # Kani 0.68 allocator-model false positive (DESIGN.md 8.2): dropping the
                # `IntoIter` of an *empty* Vec (no allocation) is reported as a mismatching
                # `__rust_dealloc`; minimised and triaged by reading std (no dealloc on that
                # path). These checks are about Kani's C model of the allocator, not about
                # any property claimed here; they are counted and reported, never decisive.
                res["ignored_alloc_model"] = res.get("ignored_alloc_model", 0) + 1
                continue
            if "unwinding assertion" in desc or "recursion unwinding assertion" in desc:
                res["unwind_failed"] = True
            res["failures"].append({"check": m.group("name"), "desc": desc, "loc": loc[:200]})
    res["functions"] = sorted(funcs)
    return res


def cbmc_args(h):
    extra = []
    uw = list(h.get("unwindset", [])) + list(h.get("_resolved_recursion", []))
    if uw or h.get("cbmc_args"):
        extra += ["-Z", "unstable-options", "--cbmc-args"]
        if uw:
            extra += ["--unwindset", ",".join(uw)]
        extra += h.get("cbmc_args", [])
    return extra


GOTO_FN_RE = re.compile(r"^(?P<dem>.*) /\* (?P<mangled>_R[^ ,]+),")


def resolve_recursion(h, kf_features, cdir):
    """`recursion`: {demangled-prefix: depth}. #[kani::unwind] also bounds recursion and CBMC
    inlines mutually recursive functions (2*unwind)^depth times; so recursion is bounded
    separately (CBMC's recursion unwinding assertion stays on: a too-small depth FAILS).
    Mangled names are read back from the goto binary of this very build."""
    rec = dict(h.get("recursion") or {})
    loops = h.get("loops") or {}
    if not rec and not loops:
        return True
    log = os.path.join(LOGS, h["name"] + ".codegen.log")
    cmd = kani_cmd(dict(h, _resolved_recursion=[], unwindset=[], cbmc_args=[]), kf_features) + ["--only-codegen"]
    rc, timed_out, _ = run_with_caps(cmd, cdir, log, 1200, 0)
    base = target_dir(h)
    cands = []
    for root, _, files in os.walk(base):
        for f in files:
            if f.endswith(h["name"] + ".symtab.out"):
                cands.append(os.path.join(root, f))
    if not cands:
        return False
    symtab = max(cands, key=os.path.getmtime)
    out = subprocess.run(["goto-instrument", "--list-goto-functions", symtab], capture_output=True, text=True).stdout
    resolved = []
    for line in out.splitlines():
        m = GOTO_FN_RE.match(line)
        if not m:
            continue
        for prefix, depth in rec.items():
            if m.group("dem").startswith(prefix):
                resolved.append(f"{m.group('mangled')}:{depth}")
        # per-function loop bounds (loops are numbered .0, .1, ... inside a function; ids that
        # do not exist are ignored by CBMC); unwinding assertions stay on
        for prefix, bound in loops.items():
            if m.group("dem").startswith(prefix):
                for i in range(4):
                    resolved.append(f"{m.group('mangled')}.{i}:{bound}")
    h["_resolved_recursion"] = sorted(set(resolved))
    if len(resolved) > 300:
        return False  # a prefix that matches this many functions is a registry mistake
    return bool(resolved)


def target_dir(h):
    """one target dir per (crate, arena size): feature sets that change the mock's MAXN would
    otherwise rebuild the whole dependency graph on every alternation"""
    size = "".join("-" + f for f in h.get("features", []) if f in ("n4", "n6", "n12"))
    return os.path.join(WORK, "k-" + h["crate"] + size + REPO_TAG)


def kani_cmd(h, kf_features, playback=None):
    feats = list(h.get("features", [])) + kf_features
    cmd = ["cargo", "kani", "--target-dir", target_dir(h),
           "--harness", h.get("fq") or f"{h['module']}::proofs::{h['name']}", "--exact"]
    if feats:
        cmd += ["--features", ",".join(feats)]
    if h.get("stubbing"):
        cmd += ["-Z", "stubbing"]
    if playback:
        cmd += ["-Z", "concrete-playback", "--concrete-playback=" + playback]
    cmd += h.get("kani_args", [])
    cmd += cbmc_args(h)
    return cmd


def run_script(h, tier):
    """solver scripts (engine S) print one JSON object on their last line"""
    log = os.path.join(LOGS, h["name"] + ".log")
    cmd = [c.replace("{VERIF}", VERIF).replace("{REPO}", REPO).replace("{TIER}", tier) for c in h["cmd"]]
    rc, timed_out, wall = run_with_caps(cmd, VERIF, log, h.get("timeout", 600), h.get("mem_gb", 8))
    text = open(log).read()
    out = {"name": h["name"], "engine": "S", "wall_s": round(wall, 1), "log": log}
    try:
        last = [l for l in text.strip().splitlines() if l.startswith("{")][-1]
        out.update(json.loads(last))
    except Exception:
        out["status"] = "inconclusive"
        out["reason"] = "timeout" if timed_out else f"script produced no JSON (rc={rc})"
    return out


def run_harness(h, tier, kf_features):
    if h.get("kind") == "script":
        return run_script(h, tier)
    cdir = prepare_crate(h["crate"])
    log = os.path.join(LOGS, h["name"] + ".log")
    timeout_s = h.get("timeout", 600 if tier == "quick" else 2400)
    if tier == "quick":
        # the quick tier is the every-change check: no single harness may run longer than this
        timeout_s = min(timeout_s, int(os.environ.get("VERIF_QUICK_CAP", "900")))
    if not resolve_recursion(h, kf_features, cdir):
        return {"name": h["name"], "engine": "K", "crate": h["crate"], "wall_s": 0, "status": "inconclusive",
                "reason": "could not resolve recursion symbols in the goto binary", "log": log}
    with solver_slot():
        rc, timed_out, wall = run_with_caps(kani_cmd(h, kf_features), cdir, log, timeout_s, h.get("mem_gb", 14))
    text = open(log).read()
    r = parse_kani_log(text)
    out = {"name": h["name"], "engine": "K", "crate": h["crate"], "wall_s": round(wall, 1),
           "solver_s": r["solver_s"], "checks": r["checks"], "covers": [r["covers_sat"], r["covers_total"]],
           "functions_encoded": r["functions"], "bounds": h.get("bounds", ""), "shape": h.get("shape", ""),
           "log": log}
    expect_fail = h.get("expect") == "fail"
    if timed_out:
        out["status"], out["reason"] = "inconclusive", f"timeout after {timeout_s}s"
    elif r["verdict"] is None:
        out["status"], out["reason"] = "inconclusive", ("out of memory" if r["oom"] else f"no verdict (rc={rc}); see log")
    elif r["verdict"] == "SUCCESSFUL":
        if r["covers_total"] and r["covers_sat"] < h.get("min_covers", r["covers_total"]) and not h.get("allow_unsat_covers"):
            out["status"], out["reason"] = "vacuous", f"only {r['covers_sat']} of {r['covers_total']} reachability witnesses satisfied"
        elif expect_fail:
            out["status"], out["reason"] = "stale-finding", "witness harness for a known finding no longer fails"
        else:
            out["status"] = "pass"
    else:  # FAILED
        prop_fail = [f for f in r["failures"] if "unwinding assertion" not in f["desc"]]
        if not prop_fail and not r["unwind_failed"] and not r["oom"] and r.get("ignored_alloc_model") and r["failed"] == r["ignored_alloc_model"]:
            # only allocator-model checks failed: the harness's own obligations all hold
            out["status"] = "pass"
            out["ignored_alloc_model_checks"] = r["ignored_alloc_model"]
            if r["covers_total"] and r["covers_sat"] < h.get("min_covers", r["covers_total"]) and not h.get("allow_unsat_covers"):
                out["status"], out["reason"] = "vacuous", f"only {r['covers_sat']} of {r['covers_total']} reachability witnesses satisfied"
            return out
        if r["oom"] and not prop_fail:
            out["status"], out["reason"] = "inconclusive", "solver error / out of memory"
        elif r["unwind_failed"] and not prop_fail:
            out["status"], out["reason"] = "inconclusive", "unwinding bound too small: " + r["failures"][0]["loc"]
        elif not prop_fail:
            out["status"], out["reason"] = "inconclusive", "FAILED without a failing check (see log)"
        else:
            out["status"] = "fail"
            out["failures"] = prop_fail[:5]
    return out


PLAYBACK_RE = re.compile(r"```\n(.*?)```", re.S)


def replay(h, prop, kf_features, failures=None):
    """Kani concrete playback: extract the counterexample as a unit test, run it natively
    (dev profile) against the real crates + mock. Returns (reproduced, replay_path)."""
    cdir = prepare_crate(h["crate"])
    log = os.path.join(LOGS, h["name"] + ".playback.log")
    # the driver itself needs a lot of memory to decode the trace: generous cap here
    rc, timed_out, _ = run_with_caps(kani_cmd(h, kf_features, playback="print"), cdir, log,
                                     h.get("timeout", 1200) * 2, 40)
    text = open(log).read()
    blocks = re.findall(r"Concrete playback unit test for `[^`]*`:\n```\n(.*?)```", text, re.S)
    # one block per failed check and per satisfied cover.  Kani names a test after the hash of
    # its concrete values and prints each test once: when the counterexample of the failed
    # assertion has the same values as a cover witness only the cover-labelled block exists.
    # So: failed-check blocks first, then cover blocks; a block counts only if running it
    # natively makes the harness's own assertion panic.
    blocks = [b for b in blocks if "Check for `cover`" not in b] + [b for b in blocks if "Check for `cover`" in b]
    if not any("Check for `cover`" not in b for b in blocks) and failures:
        # second playback run restricted to the failed check itself (CBMC --property): its
        # counterexample is then the only trace there is
        h2 = dict(h, cbmc_args=list(h.get("cbmc_args", [])) + ["--property", failures[0]["check"]])
        log2 = os.path.join(LOGS, h["name"] + ".playback2.log")
        run_with_caps(kani_cmd(h2, kf_features, playback="print"), cdir, log2, h.get("timeout", 1200) * 2, 40)
        more = re.findall(r"Concrete playback unit test for `[^`]*`:\n```\n(.*?)```", open(log2).read(), re.S)
        blocks = more + blocks
    if not blocks:
        return None, None
    result = (None, None)
    for test_src in blocks[:4]:
        tm = re.search(r"fn (kani_concrete_playback_\w+)", test_src)
        if not tm:
            continue
        digest = hashlib.sha1(test_src.encode()).hexdigest()[:10]
        rdir = os.path.join(VERIF, "replays", prop)
        os.makedirs(rdir, exist_ok=True)
        rpath = os.path.join(rdir, f"{h['name']}_{digest}.rs")
        with open(rpath, "w") as f:
            f.write(f"// counterexample for harness `{h['name']}` (property {prop}) found by Kani/CBMC\n")
            f.write(f"// replay: ./check {prop} --replay {os.path.relpath(rpath, VERIF)}\n")
            f.write(f"// harness-module: {h['module']}\n")
            f.write(test_src)
        ok = run_replay_file(h, rpath, kf_features)
        if ok:
            return True, rpath
        os.remove(rpath)
        if ok is False and result[0] is None:
            result = (False, None)
    return result


def run_replay_file(h, rpath, kf_features):
    """copy kani/ to scratch, append the playback test to the harness module, run it"""
    src = open(rpath).read()
    test_name = re.search(r"fn (kani_concrete_playback_\w+)", src).group(1)
    scratch = os.path.join(WORK, "replay-" + h["name"] + REPO_TAG)
    shutil.rmtree(scratch, ignore_errors=True)
    shutil.copytree(KANI_DIR, scratch, ignore=shutil.ignore_patterns("target"))
    mod_file = os.path.join(scratch, h["crate"], "src", h["module"] + ".rs")
    body = open(mod_file).read()
    # the test must live in the module that defines the harness fn: by convention
    # `mod proofs` is the LAST item of every harness file
    test_only = src[src.index("#[test]"):]
    # insert right after the harness function (same module => the harness fn is in scope)
    m = re.search(r"\n(\s*)fn " + re.escape(h["name"]) + r"\s*\(\s*\)\s*\{", body)
    if m:
        i = m.end()
        depth = 1
        while depth and i < len(body):
            depth += {"{": 1, "}": -1}.get(body[i], 0)
            i += 1
        body = body[:i] + "\n" + test_only + "\n" + body[i:]
    else:
        # macro-generated harness: by convention `mod proofs` is the last item of the file
        idx = body.rindex("}")
        body = body[:idx] + "\n" + test_only + "\n}\n"
    open(mod_file, "w").write(body)
    feats = list(h.get("features", [])) + kf_features
    cmd = ["cargo", "kani", "playback", "-Z", "concrete-playback"]
    if feats:
        cmd += ["--features", ",".join(feats)]
    cmd += ["--", test_name]
    log = os.path.join(LOGS, h["name"] + ".replay.log")
    env_td = dict(ENV)
    env_td["CARGO_TARGET_DIR"] = os.path.join(WORK, "k-replay-" + h["crate"] + REPO_TAG)
    with open(log, "w") as lf:
        p = subprocess.run(cmd, cwd=os.path.join(scratch, h["crate"]), stdout=lf, stderr=subprocess.STDOUT,
                           env=env_td, timeout=1800)
    text = open(log).read()
    shutil.rmtree(scratch, ignore_errors=True)
    if re.search(r"test result: FAILED", text) and "panicked at" in text:
        return True
    if re.search(r"test result: ok", text):
        return False
    return None


def main():
    ap = argparse.ArgumentParser()
    ap.add_argument("prop")
    ap.add_argument("--tier", default=os.environ.get("VERIF_TIER", "quick"), choices=["quick", "thorough", "lab"])
    ap.add_argument("--jobs", type=int, default=int(os.environ.get("VERIF_JOBS", "6")))
    ap.add_argument("--only", default=None)
    ap.add_argument("--no-evidence", action="store_true")
    ap.add_argument("--replay", default=None)
    args = ap.parse_args()
    prop = args.prop
    seed = int(os.environ.get("VERIF_SEED", "0") or 0)
    t0 = time.time()
    os.makedirs(LOGS, exist_ok=True)

    findings, fixed = load_known_findings()
    harnesses = [h for h in registry.HARNESSES if h["prop"] == prop or prop in h.get("also", [])]
    if not harnesses:
        print(f"no harness registered for {prop}")
        return 2

    if args.replay:
        rp = os.path.join(VERIF, args.replay) if not os.path.isabs(args.replay) else args.replay
        hname = re.search(r"harness `([^`]+)`", open(rp).read()).group(1)
        h = [x for x in harnesses if x["name"] == hname][0]
        ok = run_replay_file(h, rp, [])
        print("replay reproduces the violation" if ok else "replay does NOT reproduce")
        return 1 if ok else 0

    tiers = {"quick": ["quick"], "thorough": ["quick", "thorough"], "lab": ["quick", "thorough", "lab"]}[args.tier]
    selected = [h for h in harnesses if h.get("tier", "quick") in tiers]
    if args.only:
        selected = [h for h in selected if re.search(args.only, h["name"])]

    # known findings: a `finding:` line with key K turns on cargo feature kf_K in the harness
    # crates; harnesses then assume the listed input class away (so any *other* violation
    # still fails) and a witness harness shows the class itself still fails.
    kf_for_prop = {k: v for (p, k), v in findings.items() if p == prop}
    kf_features_all = {}
    for h in selected:
        kf_features_all[h["name"]] = [f"kf_{k}" for k in h.get("kf_keys", []) if k in kf_for_prop]
    # witness harnesses only make sense while their finding is listed
    selected = [h for h in selected if not h.get("witness_for") or h["witness_for"] in kf_for_prop]

    # build once per crate (serial) so that parallel runs only re-codegen the harness crate
    results = []
    crates = sorted({h["crate"] for h in selected if h.get("kind") != "script"})
    for c in crates:
        prepare_crate(c)
    # warm the dependency build once per target directory (codegen only, serial), then run
    # every harness through the pool (the machine-wide slot semaphore bounds concurrency)
    seen = set()
    for h in selected:
        if h.get("kind") == "script":
            continue
        td = target_dir(h)
        if td in seen:
            continue
        seen.add(td)
        cdir = prepare_crate(h["crate"])
        warm = kani_cmd(dict(h, _resolved_recursion=[], unwindset=[], cbmc_args=[]), kf_features_all[h["name"]]) + ["--only-codegen"]
        run_with_caps(warm, cdir, os.path.join(LOGS, "warmup-" + os.path.basename(td) + ".log"), 1800, 0)
    with cf.ThreadPoolExecutor(max_workers=args.jobs) as ex:
        results += list(ex.map(lambda h: run_harness(h, args.tier, kf_features_all[h["name"]]), selected))
    by_name = {h["name"]: h for h in selected}

    violations = []
    inconclusive = []
    known_printed = []
    for r in results:
        h = by_name[r["name"]]
        if r["status"] == "fail" and h.get("kind") != "script":
            if h.get("witness_for"):
                # expected: the listed finding is still present
                r["status"] = "known-finding-confirmed"
                continue
            ok, rpath = replay(h, prop, kf_features_all[h["name"]], r.get("failures"))
            r["replay"] = rpath
            if ok:
                r["status"] = "violation"
                violations.append((r, rpath))
            elif ok is False:
                r["status"] = "inconclusive"
                r["reason"] = "counterexample does not reproduce natively (encoding/stub suspect)"
                inconclusive.append(r)
            else:
                r["status"] = "inconclusive"
                r["reason"] = "could not extract/run concrete playback"
                inconclusive.append(r)
        elif r["status"] == "fail":
            # solver scripts replay natively themselves and report `replay`
            if r.get("replay") and r.get("reproduced"):
                r["status"] = "violation"
                violations.append((r, r["replay"]))
            else:
                r["status"] = "inconclusive"
                inconclusive.append(r)
        elif r["status"] in ("inconclusive", "vacuous"):
            inconclusive.append(r)
        elif r["status"] == "stale-finding":
            inconclusive.append(r)

    for k, text in sorted(kf_for_prop.items()):
        print(f"KNOWN-FINDING: property={prop} key={k} {text}")
        known_printed.append(k)

    for r in results:
        extra = f" ({r.get('reason')})" if r.get("reason") else ""
        print(f"[{r['status']:>10}] {r['name']}  wall={r['wall_s']}s solver={r.get('solver_s')}s checks={r.get('checks')} covers={r.get('covers')}{extra}")
    for r, rpath in violations:
        print(f"VIOLATION property={prop} replay={os.path.relpath(rpath, VERIF) if rpath else 'n/a'}")

    wall = time.time() - t0
    if not args.no_evidence and not args.only:
        write_evidence(prop, args.tier, seed, results, by_name, wall, len(violations), inconclusive, known_printed, fixed)
    if violations:
        return 1
    if inconclusive:
        print(f"INCONCLUSIVE property={prop}: " + "; ".join(f"{r['name']}: {r.get('reason')}" for r in inconclusive))
        return 2
    return 0


def write_evidence(prop, tier, seed, results, by_name, wall, nviol, inconclusive, known, fixed):
    passed = [r for r in results if r["status"] in ("pass", "known-finding-confirmed")]
    queries = sum((r.get("checks") or 0) + (r.get("queries") or 0) for r in results)
    nontrivial = [r for r in passed if (r.get("covers") and r["covers"][1] and r["covers"][0] == r["covers"][1]) or r.get("nonvacuous")]
    samples = []
    for r in results:
        h = by_name[r["name"]]
        samples.append({
            "harness": r["name"], "engine": r.get("engine"), "status": r["status"],
            "decides": h.get("decides", ""), "functions_encoded": (r.get("functions_encoded") or h.get("functions", []))[:40],
            "declared_targets": h.get("functions", []),
            "shape": h.get("shape", ""), "bounds": h.get("bounds", ""),
            "unwindset": h.get("unwindset", []),
            "checks": r.get("checks"), "covers_satisfied": r.get("covers"),
            "solver_s": r.get("solver_s"), "wall_s": r.get("wall_s"),
            "solvers": r.get("solvers"), "replay": r.get("replay"),
            "reason": r.get("reason"),
            "ignored_allocator_model_checks": r.get("ignored_alloc_model_checks", 0),
        })
    assumptions = sorted({a for r in results for a in by_name[r["name"]].get("assumes", [])})
    ev = {
        "property_id": prop, "tier": tier, "seed": seed, "level": "model_checking",
        "coverage": {
            "evaluations": max(queries, 1) if results else 0,
            "distinct_nontrivial": len(nontrivial),
            "rule": ("one solver query set per registered harness (Kani/CBMC bounded model checking of the real crates "
                     "compiled from /repo with the tree-sitter facade stubbed, or MIR->SMT-LIB for integer kernels); "
                     "`evaluations` = CBMC property checks + SMT queries discharged in this run; a harness counts as "
                     "non-trivial only if it passed AND every kani::cover! reachability witness placed after its "
                     "assumptions was satisfied (scripts: their own sat-witness query)"),
            "samples": samples,
            "exhaustive": False,
            "harnesses_run": len(results),
            "harnesses_passed": len(passed),
            "inconclusive": [{"harness": r["name"], "reason": r.get("reason")} for r in inconclusive],
            "known_findings": known,
            "fixed_findings": [f"{p} {c} {t}" for (p, c, t) in fixed if p == prop],
            "solver_time_s": round(sum((r.get("solver_s") or 0) for r in results), 1),
        },
        "assumptions": assumptions,
        "wall_s": round(wall, 1),
        "violations": nviol,
    }
    os.makedirs(os.path.join(VERIF, "evidence"), exist_ok=True)
    with open(os.path.join(VERIF, "evidence", prop + ".json"), "w") as f:
        json.dump(ev, f, indent=1)


if __name__ == "__main__":
    sys.exit(main())
