#!/bin/bash
# Run once after a fresh restore, offline. Warms the Kani dependency builds.
set -e
cd "$(dirname "$0")/.."
export CARGO_NET_OFFLINE=true
mkdir -p .work/logs evidence
for c in kani/*-h; do
  [ -f "$c/Cargo.toml" ] || continue
  cp /repo/Cargo.lock "$c/Cargo.lock"
  ( cd "$c" && cargo kani --only-codegen --features hooks --target-dir "$(pwd)/../../.work/k-$(basename $c)" --harness __warmup__ >/dev/null 2>&1 || true )
done
echo setup done
