"""Per-property claim texts for MANIFEST.json (kept next to the registry)."""

ENGINES = [
    {"name": "kani-cbmc", "path": "/verif/kani", "serves_properties": [],
     "kind_free_text": "Kani 0.68 / CBMC 6.11 bounded model checking of the real ast-grep-core / ast-grep-config crates (path deps on /repo, rebuilt each run) against a pure-Rust mock of the tree-sitter facade"},
    {"name": "mir-smt", "path": "/verif/tools/mir2smt.py", "serves_properties": [],
     "kind_free_text": "MIR (cargo +nightly rustc -Zunpretty=mir of /repo) translated to SMT-LIB2 bit-vectors; decided by z3 and cvc5, answers must agree"},
]

NOTES = ("Technique family: solver-based checking of the real code. Every verdict is bounded; bounds, stubs and "
         "assumptions are listed per harness in evidence/<id>.json and DESIGN.md. Exit 2 = inconclusive (never reported as pass).")

CLAIMS = {
    "C20": {
        "text": ("For every string within the stated length/alphabet bounds the SAT solver shows that the real "
                 "extract_meta_var / pre-processing / An+B / substring kernels agree with an independently written "
                 "specification table; counterexamples are replayed natively before being reported."),
        "note": ("Bounded: strings <= 5 (quick) / 7 (thorough) bytes over a 6-letter alphabet covering every character class the code "
                 "distinguishes. Whether a spelling lexes as one token in each of the 23 grammars is a grammar fact outside the claim."),
    },
}

NOT_APPLICABLE = {
    "C09": "Equality of CLI/sg-test/LSP outputs and LSP notification histories is process I/O + async runtime (tokio, tower-lsp, DashMap): no symbolic-execution path with the installed engines; the shared funnel (CombinedScan, templates) is decided under C01/C14/C07.",
    "C15": "Decided by globset/ignore/regex/extension tables and process exit plumbing inside the cli crate (clap, walker, 23 C grammars): outside what Kani/CBMC can execute here.",
    "C17": "Concurrency of walker threads / mpsc channels: Kani does not model threads and no other solver-based engine for Rust concurrency is installed.",
}

# properties planned but whose harnesses are not built yet (kept out of `checks` until they run)
NOT_YET = {}
