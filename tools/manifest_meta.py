"""Per-property claim texts for MANIFEST.json (kept next to the registry)."""

ENGINES = [
    {"name": "kani-cbmc", "path": "/verif/kani", "serves_properties": [],
     "kind_free_text": "Kani 0.68 / CBMC 6.11 (CaDiCaL) bounded model checking of the real ast-grep-core / ast-grep-config / ast-grep-language (without its C grammars) crates (path deps on /repo, rebuilt each run) against a pure-Rust mock of the tree-sitter facade; driver tools/runner.py"},
]

NOTES = ("Technique family: solver-based checking of the real code. Every verdict is bounded; bounds, stubs and assumptions are listed per "
         "harness in evidence/<id>.json (coverage.samples) and in DESIGN.md §8. Exit 2 = inconclusive (timeout / out of memory / unwinding "
         "bound / vacuous harness / non-reproducing counterexample): never reported as pass and never as a violation. VERIF_TIER, VERIF_SEED "
         "(recorded; the solver explores all values, nothing is sampled), VERIF_JOBS, VERIF_SLOTS are honoured.")

TECH = "bounded model checking (Kani/CBMC, SAT) of the real crates compiled from /repo with tree-sitter stubbed; counterexamples replayed natively (Kani concrete playback) before being reported"

CLAIMS = {
    "C01": {
        "text": ("Claimed for two mechanisms. (a) The kind gate of composite matchers: the solver shows that the kind set cached by ops::All::new / ops::Any::new over three children "
                 "with arbitrary advertised kind sets (symbolic masks over kind ids 1..8, or no set) is exactly the intersection (set-less children skipped) / the union (a set-less child "
                 "makes the result None) of the children's sets, so the node-kind dispatch of FindAllNodes / CombinedScan can never drop a node that every (some) child would accept. "
                 "(b) The literal-substring file prefilter (core half): for every single-token pattern (symbolic kind incl. ERROR, named bit, text) at every strictness level and every candidate leaf, "
                 "Pattern::match_node_with_env(X) is Some ==> X.text() contains Pattern::fixed_string(), i.e. the string the CLI requires a file to contain is never one the match does not need; "
                 "for nested patterns fixed_string() is the longest token whose text the strictness level compares (named tokens only under ast/relaxed, none under signature)."),
        "note": ("NOT covered (engine limits, DESIGN 3; harnesses kept in the lab tier): FindAllNodes / overlap-free Visitor / replace_all drivers themselves (ANY(4): > 40 min of symbolic "
                 "execution), Pattern / Rule / ReferentRule / NthChild potential_kinds, CombinedScan's dispatch table, registration order of utils, prefilter soundness for patterns with "
                 "children (needs the sibling alignment; c01_prefilter_internal_k*: lab), and everything in the cli crate (`sg run/scan` wiring, the `contains` test of filter_file_pattern itself). "
                 "Children are stub matchers; bit sets have fixed capacity 16."),
    },
    "C02": {
        "text": ("For flat sibling lists of k <= 3 children with symbolic kinds/texts the solver shows that the pattern cut from the list (named children replaced by distinct "
                 "$VAR holes, or a trailing run by $$$VAR; hole mask concrete per harness) matches the list under all five strictness levels and binds every hole to exactly "
                 "the node(s) it replaced."),
        "note": ("Premise of the property (pattern parses to the same tree shape) is assumed by construction. The alignment routine is driven one level below "
                 "Pattern::match_node (match_nodes_impl_recursive via hook), root-kind dispatch is covered by C03's kind harness. Nesting deeper than one level is argued "
                 "compositional, not checked. 23 real grammars not reachable."),
    },
    "C03": {
        "text": ("The solver shows (a) the per-node decision of every strictness level equals the decision table of the documentation for every goal/candidate label pair, "
                 "(b) are_kinds_matching over all u16 pairs, (c) which leftover goals may stay unmatched, (d) through the real Pattern entry points for one-node patterns: a non-capturing hole "
                 "marked named ($_) matches only named nodes and an any-node hole ($$_) any node, binding nothing; for one-token patterns every node that matches has a matched length (Pattern::get_match_len) "
                 "and every reported length is the token's own length."),
        "note": ("NOT covered (engine limits, DESIGN 3): the sibling alignment itself (match_nodes_impl_recursive, match_single_node_while_skip_trivial, ellipsis handling): the harnesses "
                 "(c03_env_*, c03_len_*, c03_tt_*, c03_sep_*, c03_lay_*; oracle validated natively on 184 320 cases) run out of 24 GB / 30 min even for two terminal goals against "
                 "two candidates at one concrete strictness, and are kept in the lab tier. Two of the four seeded changes for C03 are in that loop and are missed. Capturing holes ($A) are lab tier (spurious engine failures on the MetaVarEnv write). Labels: 5 kinds + ERROR, 1-2-byte texts."),
    },
    "C04": {
        "text": ("For the composite matchers All/Any over stub children that may write a binding and then fail, with a symbolic pre-existing environment, the solver shows "
                 "that Any exposes exactly the winning branch, All the union, and that a failed composite leaves the environment untouched; MetaVarEnv::insert coherence "
                 "(same name => structurally equal) is exercised through the stubs' conflicting writes."),
        "note": "Bounds: 3 children, names {A,B}, root + 2 leaves. Relational-rule candidates and utility constraints (config crate) are not covered by this check.",
    },
    "C05": {
        "text": ("Claimed for single-call kernels of the real matchers built from parts: the solver shows (a) NthChild matches node X of any tree <= 4 nodes exactly when X is "
                 "named, has a parent and its 1-based position among the parent's named children -- with `ofRule: {kind: K}`: among those of kind K, X included -- (from the end when `reverse`) is A*m+B for some m >= 0; (b) RangeMatcher matches exactly "
                 "when the node's start and end equal the requested 0-based line / character column (multi-byte text); (c) Inside / Has / Follows / Precedes with goal `kind: number`, "
                 "stopBy neighbor or end, and (inside, has) a field, match node X of any tree <= 4 nodes exactly when the reference quantification over ancestors / descendants / "
                 "earlier / later siblings says so; (d) FunctionalPosition::is_matched(A,B,i) <=> exists n >= 0: i+1 = A*n+B."),
        "note": ("NOT covered (engine limits, DESIGN 3; harnesses kept in the lab tier): stopBy with a stop *rule*, all/any/not, matches, regex, nthChild.ofRule with a non-`kind` rule, kind (trivial id compare) and the "
                 "YAML/deserialize_rule half. Matcher values are built from parts through hook constructors and called once through match_node_with_env with an empty environment. "
                 "Bounds: ANY(4) with symbolic shape, kinds in {ident, number, comment}, named bits / field labels; A in [-2,2], B in [-2,4]; a 9-byte text with 2- and 4-byte characters and "
                 "symbolic line breaks. Precondition of the reference assumed: a field labels at most one child of a node."),
    },
    "C06": {
        "text": ("The solver shows that Node::replace_all yields ordered, pairwise disjoint, in-bounds edits equal to [match start, start + match_len) for every tree <= 4 nodes "
                 "and symbolic matcher, and (thorough) that the `rewrite` transformation equals the captured text with exactly the rewriters' ranges substituted."),
        "note": "CLI splice (`apply_rewrite`) and file I/O are not reachable (cli crate); UTF-8 boundary clause relies on the tree-sitter contract (node ranges on char boundaries).",
    },
    "C07": {
        "text": ("The solver shows split_first_meta_var agrees with a reference scanner on every string <= 7 bytes starting with the sigil, get_indent_at_offset equals the "
                 "line's leading-space count for every prefix <= 8 bytes, and extract_with_deindent/indent_lines are the identity when the text is put back at the column it was taken from "
                 "(self-rewrite is a no-op)."),
        "note": ("NOT covered (lab tier, do not finish): whole-template scanning (create_template) and re-indentation by a non-zero shift -- String-heavy code exhausts the back end "
                 "(DESIGN 3). The 512-byte look-ahead window is exercised only below 512 bytes. Fixer/TemplateFix expansion needs a populated MetaVarEnv."),
    },
    "C10": {
        "text": ("For every text <= 4 bytes, edit position, deleted length and inserted text <= 2 bytes (ASCII contents symbolic, or the two-byte character U+00E9) the solver shows AstGrep::edit splices the text exactly and hands the old "
                 "tree exactly one Tree::edit whose InputEdit (byte offsets and row/column points on old and new text) describes the change exactly, then re-parses "
                 "incrementally -- the whole obligation of the Rust side under tree-sitter's incremental-parsing contract."),
        "note": ("The incremental parser itself is outside the claim (FFI). Sizes are enumerated concretely (105 size classes), contents symbolic. The defect this check found "
                 "(double Tree::edit) was lifted to the real TSX parser, see lift/ and known_findings.txt."),
    },
    "C11": {
        "text": ("Panic-freedom (Kani's overflow/index/unwrap checks) of the post-deserialisation kernels for every value in range: parse_an_b on all strings <= 12 bytes, "
                 "FunctionalPosition::is_matched for all (step, offset) in i32^2, Transformation::used_vars/parse on any source string, and rejection at load time of a replace transformation whose regex does not compile."),
        "note": ("YAML/serde front half not executed (values built programmatically). NOT covered (lab tier): the `convert` word splitter (string_case) and end-to-end replace through "
                 "RuleCore. Termination/stack-overflow clause: two accepted-cycle defects are recorded as observations (DESIGN 5); hangs inside regex/tree-sitter out of reach."),
    },
    "C12": {
        "text": ("The solver shows that the string form and the object form of `fix` both substitute a transformed variable, and (thorough) that utility-rule registration "
                 "accepts a graph of 3 utilities iff its same-node dependency graph is acyclic for every iteration order of the utils map, and that get_matcher accepts a rule "
                 "family iff every variable used in constraints/transform/fix is defined, with the fix variable replaced by its value."),
        "note": "Programmatically built configs (serde front half not executed). End-to-end check_var harnesses are thorough-tier only (30+ min of symbolic execution each).",
    },
    "C14": {
        "text": ("The solver shows parse_suppression_set returns exactly the ids listed after `ast-grep-ignore:` for every comment tail <= 7 bytes, and, for concrete layouts of "
                 "statements and suppression comments with every monotone assignment of line numbers, that CombinedScan::scan reports a finding iff the rule matches and no "
                 "applicable suppression exists."),
        "note": "Layouts (<= 3 siblings) are enumerated per harness; line numbers symbolic in [0,4]; rule configs built from parts. Multi-line comments and nested comments not covered.",
    },
    "C16": {
        "text": ("The solver shows get_char_column (given the true byte column) equals the number of characters since the last newline for every text of <= 4 characters over {a, newline, "
                 "2-, 3- and 4-byte characters whose leaders sit on the boundaries of the UTF-8 length classes} and on a fixed 12-byte multi-byte layout, every boundary offset, and that Node::display_context returns exactly the whole-line window (leading/matched/trailing/start_line) for every text <= 6 (9) "
                 "bytes, node range and before/after <= 2."),
        "note": "JSON framing and the plain-text merger live in the cli crate (not reachable); meta-variable records reuse the same two kernels.",
    },
    "C19": {
        "text": ("For every tree of <= 4 nodes (5 thorough) with symbolic shape and labels and every start node the solver shows children/parent/child(i) consistency and range "
                 "nesting, ancestors = iterated parent, next_all/prev_all = iterated next/prev, and that Pre and Post visit exactly the subtree once each in the specified "
                 "order; field access (field / field_children / child_by_field_id); and that start_pos/end_pos (line, character column, byte point) equal the counts computed from the byte "
                 "offset on a multi-byte text, also after AstGrep::edit inserted a multi-byte character into an ASCII document; get_char_column as under C16."),
        "note": ("NOT covered: level order (Level) -- its queue is not decided even for a two-node tree, also with a FIFO shim in place of VecDeque (DESIGN 3/4). Non-zero-width siblings "
                 "assumed for the sibling clauses (as the property states). tree-sitter's own cursor is replaced by the mock (contract in kani/mock-ts)."),
    },
    "C20": {
        "text": ("For every string within the stated length/alphabet bounds the solver shows extract_meta_var agrees with the specification table of the property -- with the sigil `$` and with the "
                 "2-byte and 4-byte expando characters the languages substitute for it --, parse_an_b with a reference reading of An+B, is_matched with `exists n >= 0: i = A*n+B`, and resolve_char "
                 "with Python's slice index normalisation over the full i32 range. The real per-language pipeline extract_meta_var(pre_process_pattern(s)) is run by the model checker on a finite grid -- 24 spellings "
                 "($A $$A $_ $$_ $$$ $$$A $$$_ $_X ... $a $1 $ $$ $$$$A) x one representative language per expando class (Rust, C, Html, Java, Css) and the six spellings the property names x each of the other 18 "
                 "languages (one harness per language) -- and gives every spelling the same, language-independent meaning; and for every built-in language (symbolic index) no "
                 "language's expando character can occur in a meta-variable name."),
        "note": ("Strings <= 5 (7, 9 thorough) bytes over alphabets covering every character class the code distinguishes. The language crate is compiled without its generated C grammars; "
                 "whether a spelling lexes as one token in each of the 23 grammars is outside the claim. Symbolic spellings through pre_process_pattern (Vec<char> of symbolic element count) and "
                 "Substring::compute (needs a String of symbolic length) run out of memory and are kept in the lab tier; inside each case of the per-language grid nothing is symbolic (one pipeline run costs ~16 s of symbolic execution)."),
    },
}

NOT_APPLICABLE = {
    "C08": "The edit paths differ only in which core API each front end calls (cli: make_edit, snapshot: Node::replace, LSP: replace_by); the lsp/cli crates (tokio, tower-lsp, clap, 23 C grammars) cannot be compiled under Kani here and unit extraction was not built. The core side (default/Fixer get_replaced_range) is decided under C06.",
    "C09": "Equality of CLI/sg-test/LSP outputs and LSP notification histories is process I/O + async runtime (tokio, tower-lsp, DashMap): no symbolic-execution path with the installed engines; the shared funnel (CombinedScan, templates) is decided under C01/C14/C07.",
    "C13": "Process-level clauses (new process / hash seeds / file order / snapshot files) are outside any symbolic engine here; the in-process part (iteration order of the utils map as a solver variable, hook H1) is decided by the C12 util-registration harness and reported there.",
    "C15": "Decided by globset/ignore/regex/extension tables and process exit plumbing inside the cli crate (clap, walker, 23 C grammars): outside what Kani/CBMC can execute here.",
    "C17": "Concurrency of walker threads / mpsc channels: Kani does not model threads and no other solver-based engine for Rust concurrency is installed.",
    "C18": "`--update-all` is file I/O around cli::print::interactive_print::apply_rewrite; the cli crate cannot be compiled under Kani here and unit extraction was not built. The core edit computation is decided under C06.",
}

# properties whose harnesses exist but are not claimed (reason shown in MANIFEST.not_applicable)
NOT_YET = {}

# properties currently claimed (their quick tier is measured to pass on the unchanged tree within
# the time budget); the others fall back to NOT_APPLICABLE / UNCLAIMED_REASONS
CLAIMED_NOW = ["C01", "C03", "C05", "C07", "C10", "C11", "C16", "C19", "C20"]

UNCLAIMED_REASONS = {
    "C01": "Library search drivers: harnesses exist (FindAllNodes / overlap-free Visitor on ANY(4) and per shape, kind-set algebra, CombinedScan dispatch) but none finishes: FindAllNodes on ANY(4) was still in symbolic execution after 42 min (DESIGN 3). The CLI wiring and the literal-substring prefilter are in the cli crate and not reachable.",
    "C02": "The sibling-alignment engine (match_nodes_impl_recursive + MetaVarEnv) could not be decided by Kani/CBMC within 25 min / 30 GB even for one goal vs one candidate (DESIGN 3); harnesses and natively validated oracle are kept (c02_cut.rs).",
    "C04": "Everything through a MetaVarEnv with content (heap maps of String -> Node) exhausts the SAT back end: ops::Any / All over stub children that bind a variable, 30 GB with symbolic write patterns and 24 GB even with a concrete write pattern and two children (c04k_*); MetaVarEnv::insert harnesses hit the spurious memory failures of DESIGN 3. Harnesses kept in the lab tier (c04_ops.rs, c04_insert.rs).",
    "C05": "Relational rules through Rule/RuleCore: 13-way dispatch + heap objects; > 20 min symex then 30 GB in array post-processing even with matcher structs on the stack and enumerated shapes (DESIGN 3); harnesses and oracle kept (c05_rel.rs).",
    "C06": "replace_all harnesses exist (c01_search.rs) but do not finish (ANY(4): > 28 min of symbolic execution); Fixer expansions / rewrite transformation need MetaVarEnv + RuleCore (DESIGN 3); CLI splice not reachable.",
    "C12": "get_matcher / Fixer::parse / check_var: String- and heap-heavy config code; the 2-byte template `$T` alone needs 25 min then runs out of memory (DESIGN 3); harnesses kept (c12_*.rs, c13_utils.rs).",
    "C14": "parse_suppression_set uses str::split_once with a 15-byte needle on symbolic text (> 15 min per 1-byte tail); CombinedScan::scan > 37 min; the suppression-table kernel (hook suppression_verdict) makes Kani 0.68 report spurious memory failures even on a fully concrete input (DESIGN 3), so nothing it says can be believed. Harnesses and natively validated oracles kept (c14_scan.rs, c14_table.rs, small_kernels.rs); they exposed defects D4 and D10 (DESIGN 5), confirmed on the CLI.",
}
