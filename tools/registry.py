"""Harness registry: which solver queries decide which property (DESIGN.md §4).

Each entry: prop, name (Kani harness fn), crate, module (file stem under src/ holding the
harness, needed for replay), tier, features, bounds/shape/decides/functions (reported in
evidence), assumes (stub/assumption ids of DESIGN §3.2), optional unwindset / timeout /
kf_keys (known-finding classes the harness can assume away) / witness_for.
"""

ST_TS = "ST1: tree-sitter replaced by the mock arena (structural contract only, no grammar facts)"
ST_UTF8 = "ST2: sources are valid UTF-8; node ranges on char boundaries"
ST_MAP = "ST3/H1: HashMap replaced by VecMap (finite-map semantics; iteration order symbolic where stated)"
ST_REGEX = "ST4: regex crate not executed"
ST_SERDE = "ST6: YAML/serde front half not executed; values built programmatically"

HARNESSES = []


def H(**kw):
    kw.setdefault("tier", "quick")
    kw.setdefault("features", ["hooks"])
    kw.setdefault("assumes", [])
    HARNESSES.append(kw)


# ---------------------------------------------------------------- C20
H(prop="C20", name="c20_metavar_spelling_n5", crate="core-h", module="c20_metavar",
  decides="extract_meta_var(s,'$') == specification table, for every s",
  functions=["ast_grep_core::meta_var::extract_meta_var"],
  shape="STR", bounds="all strings <= 5 bytes over {$,A,Z,a,0,_}; unwind 7")
H(prop="C20", name="c20_metavar_spelling_n7", crate="core-h", module="c20_metavar", tier="thorough",
  decides="extract_meta_var(s,'$') == specification table, for every s",
  functions=["ast_grep_core::meta_var::extract_meta_var"],
  shape="STR", bounds="all strings <= 7 bytes over {$,A,Z,a,0,_}; unwind 9")
