"""Harness registry: which solver queries decide which property (DESIGN.md §4).

Each entry: prop, name (Kani harness fn), crate, module (file stem under src/ holding the
harness, needed for replay), tier, features, bounds/shape/decides/functions (reported in
evidence), assumes (stub/assumption ids of DESIGN §3.2), optional unwindset / timeout /
kf_keys (known-finding classes the harness can assume away) / witness_for.
"""

ST_TS = "ST1: tree-sitter replaced by the mock arena (structural contract only, no grammar facts)"
ST_UTF8 = "ST2: sources are valid UTF-8; node ranges on char boundaries"
ST_MAP = "ST3/H1: HashMap replaced by VecMap (finite-map semantics; iteration order symbolic where stated)"
ST_REGEX = "ST4: regex crate not executed"
ST_SERDE = "ST6: YAML/serde front half not executed; values built programmatically"

HARNESSES = []

# Heavy harnesses run without CBMC's pointer-validity instrumentation and Kani's per-assertion
# reachability probes: the code under test is safe Rust (memory errors are impossible outside the
# few `unsafe` lines of std / the mock), Rust's own panics (bounds, overflow, unwrap) remain
# assertions, and non-vacuity is shown by explicit kani::cover! witnesses instead.
LIGHT = ["-Z", "unstable-options", "--no-memory-safety-checks", "--no-assertion-reach-checks"]


def H(**kw):
    kw.setdefault("tier", "quick")
    kw.setdefault("features", ["hooks"])
    kw.setdefault("assumes", [])
    HARNESSES.append(kw)


# ---------------------------------------------------------------- C20
H(prop="C20", name="c20_metavar_spelling_n5", crate="core-h", module="c20_metavar",
  decides="extract_meta_var(s,'$') == specification table, for every s",
  functions=["ast_grep_core::meta_var::extract_meta_var"],
  shape="STR", bounds="all strings <= 5 bytes over {$,A,Z,a,0,_}; unwind 7")
H(prop="C20", name="c20_metavar_spelling_n9", crate="core-h", module="c20_metavar", tier="thorough", timeout=3600, mem_gb=20,
  decides="extract_meta_var(s,'$') == specification table, for every s",
  functions=["ast_grep_core::meta_var::extract_meta_var"],
  shape="STR", bounds="all strings <= 9 bytes over {$,A,Z,a,0,_}; unwind 11")
H(prop="C20", name="c20_metavar_spelling_n7", crate="core-h", module="c20_metavar", tier="thorough",
  decides="extract_meta_var(s,'$') == specification table, for every s",
  functions=["ast_grep_core::meta_var::extract_meta_var"],
  shape="STR", bounds="all strings <= 7 bytes over {$,A,Z,a,0,_}; unwind 9")

LANGS = ["Bash", "C", "Cpp", "CSharp", "Css", "Elixir", "Go", "Haskell", "Html", "Java", "JavaScript", "Json", "Kotlin", "Lua",
         "Php", "Python", "Ruby", "Rust", "Scala", "Swift", "Tsx", "TypeScript", "Yaml"]
LANG_FUNCS = ["ast_grep_language::pre_process_pattern", "<ast_grep_language::SupportLang as Language>::pre_process_pattern / expando_char / extract_meta_var (all 23 built-in languages)",
              "ast_grep_core::meta_var::extract_meta_var"]
LANG_ASSUME = "grammar (FFI) not executed: ast-grep-language is built without its generated C grammars (feature builtin-parser off); that a language's tokenizer keeps the pre-processed spelling as one leaf is outside the claim"
_DEC_LANG = ("L.extract_meta_var(L.pre_process_pattern(s)) == the language-independent meaning of the spelling s ($A named capture, $$A any-node capture, $_ / $_X / $$_ non-capturing, "
             "$$$ / $$$_ anonymous ellipsis, $$$A named ellipsis; lower-case, digit-first names and lone sigils are not holes)")
_NOTE_LANG = ("NOTE: language and spellings are concrete -- this harness is the real code executed by the model checker on concrete cases (one pipeline run costs ~16 s of symbolic execution); "
              "symbolic spellings through pre_process_pattern do not finish (lab: c20_lang_spelling_rust_len3, c20_lang_shape_rust_2_2); the symbolic-input half of the claim is c20_metavar_spelling_* and c20_lang_expando_class")
for _l, _cls in (("rust", "2-byte expando U+00B5; the shared pre_process_pattern"), ("c", "4-byte expando U+10000"), ("html", "ASCII expando z, own Language impl"),
                 ("java", "no expando: sigil kept"), ("css", "U+00B5 since the fix of D11")):
    H(prop="C20", name=f"c20_lang_pipeline_{_l}", crate="lang-h", module="c20_lang_spelling", features=[], timeout=1800, mem_gb=20,
      decides=f"for L = {_l} ({_cls}): " + _DEC_LANG, functions=LANG_FUNCS, assumes=[LANG_ASSUME], shape="STR",
      bounds="spelling: symbolic index into a table of 24 spellings, case-split ($A $$A $_ $$_ $$$ $$$A | $$$_ $_X $$_X $$$_X $Z $A_1 | $a $1 $ $$ $$$$ $$$$A | $ZA $$Z0 $Aa $$$a $A$B A). " + _NOTE_LANG + "; unwind 25")
for _l in ("Bash", "Cpp", "CSharp", "Elixir", "Go", "Haskell", "JavaScript", "Json", "Kotlin", "Lua", "Php", "Python", "Ruby", "Scala", "Swift", "Tsx", "TypeScript", "Yaml"):
    H(prop="C20", name=f"c20_lang_named_{_l.lower()}", crate="lang-h", module="c20_lang_spelling", features=[], timeout=2400, mem_gb=20,
      decides=f"for L = {_l}: " + _DEC_LANG, functions=LANG_FUNCS, assumes=[LANG_ASSUME], shape="STR",
      bounds="spelling: symbolic index into the six spellings the property names ($A $$A $_ $$_ $$$ $$$A), case-split. " + _NOTE_LANG + "; unwind 25")
for _nm, _b in (("c20_lang_spelling_rust_len3", "Rust, every spelling of exactly 3 bytes starting with $ over {$,A,Z,a,0,_}"),
                ("c20_lang_shape_rust_2_2", "Rust, $$ followed by two symbolic name characters over {A,Z,a,0,_}")):
    H(prop="C20", name=_nm, crate="lang-h", module="c20_lang_spelling", features=[], tier="lab", timeout=1800, mem_gb=24,
      decides="extract_meta_var(pre_process_pattern(s)) == table, symbolic spelling (does not finish: out of memory)",
      functions=LANG_FUNCS, assumes=[LANG_ASSUME], shape="STR", bounds=_b)
H(prop="C20", name="c20_lang_expando_class", crate="lang-h", module="c20_lang_spelling", features=[],
  decides="for every built-in language: expando_char() is the sigil or a character that cannot occur in a meta-variable spelling ([A-Z_0-9])",
  functions=["<ast_grep_language::SupportLang as Language>::expando_char"], assumes=[LANG_ASSUME], shape="INT", bounds="symbolic index into SupportLang::all_langs() (23 languages)")
for _nm, _e, _uw in (("mu", "U+00B5 (2 bytes: the expando of C#, CSS, Elixir, Go, Haskell, Kotlin, PHP, Python, Ruby, Rust, Swift)", 12),
                     ("u10000", "U+10000 (4 bytes: the expando of C and C++)", 22), ("z", "z (1 byte: the expando of HTML)", 7)):
    H(prop="C20", name=f"c20_metavar_spelling_expando_{_nm}_n5", crate="core-h", module="c20_metavar", timeout=1800, mem_gb=20,
      decides="extract_meta_var(s, expando) == specification table (with the expando in the role of the sigil), for every s",
      functions=["ast_grep_core::meta_var::extract_meta_var"],
      shape="STR", bounds=f"all strings of <= 5 characters over {{expando,A,Z,a,0,_}}, expando = {_e}; unwind {_uw}")
ANB_FUNCS = ["ast_grep_config::rule::nth_child::parse_an_b", "ast_grep_config::rule::nth_child::FunctionalPosition::is_matched"]
H(prop="C20", name="c20_anb_parse_spec_n6", crate="config-h", module="anb",
  decides="parse_an_b(s) == reference reading of An+B (accept/reject and (A,B)), for every s",
  functions=ANB_FUNCS[:1], shape="STR", bounds="all strings <= 6 bytes over {+,-,n,N,2,9,' '}; unwind 8")
H(prop="C20", name="c20_anb_parse_spec_n9", crate="config-h", module="anb", tier="thorough",
  decides="parse_an_b(s) == reference reading of An+B (accept/reject and (A,B)), for every s",
  functions=ANB_FUNCS[:1], shape="STR", bounds="all strings <= 9 bytes over {+,-,n,N,2,9,' '}; unwind 11")
H(prop="C20", name="c20_anb_selects_small", crate="config-h", module="anb", also=["C05"],
  decides="is_matched(A,B,i) <=> exists n>=0: i+1 = A*n+B",
  functions=ANB_FUNCS[1:], shape="INT", bounds="A in [-4,4], B in [-6,6], index < 12, n <= 18")

H(prop="C11", name="c11_anb_parse_total_n12", crate="config-h", module="anb",
  decides="parse_an_b never panics (overflow, index) on any string",
  functions=ANB_FUNCS[:1], shape="STR", bounds="all strings <= 12 bytes over {+,-,n,9,1,' '} (12 digits overflow i32); unwind 14")
H(prop="C11", name="c11_nth_is_matched_total", crate="config-h", module="anb",
  decides="is_matched never panics (sub/div/rem overflow) for any (step, offset) in i32^2",
  functions=ANB_FUNCS[1:], shape="INT", bounds="step, offset: full i32; index < 2^31-2")

H(prop="C01", name="c01_potential_kinds_terminal", crate="core-h", module="c01_prefilter", features=["hooks", "n4"], timeout=1200, mem_gb=20, tier="lab",
  decides="Pattern::match_node_with_env(X) is Some ==> Pattern::potential_kinds() is None or contains X's kind (the kind gate of FindAllNodes never drops a node a one-token pattern matches)",
  functions=["ast_grep_core::matcher::pattern::Pattern::potential_kinds", "ast_grep_core::matcher::pattern::Pattern::match_node_with_env"],
  assumes=[ST_TS], shape="FLAT(1)", bounds="pattern = one terminal token (5 kinds, ERROR excluded: a BitSet holding kind 65535 is out of the unwinding bound; named bit; 1-byte text), 5 strictness levels; candidate leaf: 5 kinds; unwind 8")
H(prop="C01", name="c01_prefilter_terminal", crate="core-h", module="c01_prefilter", features=["hooks", "n4"],
  decides="Pattern::match_node_with_env(X) is Some ==> X.text() contains Pattern::fixed_string() (soundness of the CLI's literal-substring file prefilter), single-terminal patterns",
  functions=["ast_grep_core::matcher::pattern::Pattern::fixed_string", "ast_grep_core::matcher::pattern::PatternNode::fixed_string",
             "ast_grep_core::matcher::pattern::Pattern::match_node_with_env", "ast_grep_core::match_tree::match_node_non_recursive",
             "ast_grep_core::match_tree::strictness::MatchStrictness::match_terminal"],
  assumes=[ST_TS], shape="FLAT(1)", timeout=1800, mem_gb=24,
  bounds="pattern = one terminal token (kind in 5 kinds + ERROR, named bit, 1-byte text x/y or the token's own text), all 5 strictness levels; candidate = one leaf (5 kinds, 1-byte text); unwind 8")
# ---------------------------------------------------------------- C07
TPL_FUNCS = ["ast_grep_core::replacer::template::create_template", "ast_grep_core::replacer::split_first_meta_var",
             "ast_grep_core::replacer::indent::get_indent_at_offset"]
H(prop="C07", name="c07_split_first_meta_var_n7", crate="core-h", module="c07_template",
  decides="split_first_meta_var(s) == (up to 3 sigils, maximal [A-Z_0-9]+ name, kind single/multi/transformed) or None, for every s starting with the sigil",
  functions=TPL_FUNCS[1:2], shape="STR", bounds="all strings <= 7 bytes over {$,A,T,_,1,b} starting with $; unwind 9")

for _nm, _lay in (("two_slots", "??$A???$$$B"), ("rejected_paren", "$(???$F?"), ("rejected_lower", "?$a???$T$"), ("adjacent", "$A$$B??$T?$$")):
    H(prop="C07", name=f"c07_template_layout_{_nm}", crate="core-h", module="c07_template", tier="lab", timeout=1800, mem_gb=24,
      decides="create_template(t) == reference scan: fragments, slot names / kinds and the indentation recorded for every slot (leading spaces of the slot's line in the whole template)",
      functions=TPL_FUNCS, shape="STR",
      bounds=f"template layout '{_lay}' (sigils and name characters concrete, every '?' symbolic over {{' ', '\\n', 'x'}}); transformed name T; unwind 14")
# ---------------------------------------------------------------- C16
H(prop="C16", name="c16_char_column_4ch", crate="core-h", module="c16_positions", also=["C19"], mem_gb=24,
  decides="get_char_column(offset) == number of chars since the last newline (forward decode)",
  functions=["ast_grep_core::source::<String as Content>::get_char_column"], assumes=[ST_UTF8],
  shape="STR", bounds="all texts of <= 4 chars over {a, \\n, U+00E9 (2B), U+07FF (2B, leader DF), U+0800 (3B, leader E0), U+FFFD (3B, leader EF), U+1F600 (4B)} (<= 16 bytes), every char-boundary offset; unwind 18")
H(prop="C16", name="c16_char_column_layout12", crate="core-h", module="c16_positions", also=["C19"], mem_gb=24,
  decides="get_char_column(byte column, offset) == number of chars since the last newline (forward decode)",
  functions=["ast_grep_core::source::<String as Content>::get_char_column"], assumes=[ST_UTF8],
  shape="STR", bounds="the 12-byte text x0 <2B> x1 <3B> U+1F600 x2 with x_i in {a, \\n}, <2B> in {U+00E9, U+07FF}, <3B> in {U+0800, U+FFFD} (symbolic), every char-boundary offset; unwind 14")
H(prop="C19", name="c19_node_positions_layout12", crate="core-h", module="c16_positions", also=["C16"], mem_gb=24,
  decides="Node::start_pos()/end_pos(): line == newlines before the offset, column(node) == characters since the last newline, ts_point == (line, bytes since the last newline)",
  functions=["ast_grep_core::node::Node::start_pos", "ast_grep_core::node::Node::end_pos", "ast_grep_core::Position::column", "ast_grep_core::Position::line", "ast_grep_core::Position::ts_point"],
  assumes=[ST_TS, ST_UTF8], shape="STR", bounds="one-node tree over the 12-byte text x0 U+00E9 x1 U+0800 U+1F600 x2 with x_i symbolic in {a, \\n}; every node range on character boundaries; unwind 14")
H(prop="C19", name="c19_node_positions_after_edit", crate="core-h", module="c16_positions", mem_gb=24,
  decides="after AstGrep::edit inserted a multi-byte character into an ASCII document, end_pos() line / character column are those of the new text",
  functions=["ast_grep_core::node::Root::do_edit", "ast_grep_core::node::Node::end_pos", "ast_grep_core::Position::column"],
  assumes=[ST_TS, ST_UTF8], shape="STR", bounds="3-byte text over {a, \\n} (middle byte symbolic), U+00E9 inserted at every position; one-node tree before and after; unwind 10")
H(prop="C16", name="c16_display_context_multibyte7", crate="core-h", module="c16_positions", mem_gb=24, timeout=1800,
  decides="Node::display_context(before, after): leading / matched / trailing are the bytes of the whole-line window around the node, start_line its first line -- on text with multi-byte characters before the match (byte offsets != character columns)",
  functions=["ast_grep_core::node::Node::display_context"], assumes=[ST_TS, ST_UTF8],
  shape="STR", bounds="the 7-byte text x0 U+00E9 x1 U+00E9 x2 with x_i in {a, \\n} (symbolic), every node range on character boundaries, before / after <= 1; unwind 10")
H(prop="C16", name="c16_display_context_len3", crate="core-h", module="c16_positions", mem_gb=24, timeout=1800,
  decides="Node::display_context(before, after): leading / matched / trailing / start_line == whole-line window around the node, clipped at the file edges",
  functions=["ast_grep_core::node::Node::display_context"], assumes=[ST_TS],
  shape="STR", bounds="every text of exactly 3 bytes over {a,\\n}, every node range, before/after <= 2; unwind 8")
H(prop="C16", name="c16_display_context_len5", crate="core-h", module="c16_positions", mem_gb=24, timeout=1800,
  decides="Node::display_context(before, after): leading / matched / trailing / start_line == whole-line window around the node, clipped at the file edges",
  functions=["ast_grep_core::node::Node::display_context"], assumes=[ST_TS],
  shape="STR", bounds="every text of exactly 5 bytes over {a,\\n}, every node range, before/after <= 2; unwind 8")
H(prop="C16", name="c16_display_context_n6", crate="core-h", module="c16_positions", mem_gb=24,
  decides="display_context(before,after): leading/matched/trailing/start_line == whole-line window computed independently",
  functions=["ast_grep_core::node::Node::display_context"], assumes=[ST_TS],
  shape="STR+1 node", bounds="all texts <= 6 bytes over {a,\\n}, every node range s<=e<=len, before,after <= 2; unwind 8")
H(prop="C16", name="c16_display_context_n9", crate="core-h", module="c16_positions", tier="thorough",
  decides="display_context(before,after): leading/matched/trailing/start_line == whole-line window computed independently",
  functions=["ast_grep_core::node::Node::display_context"], assumes=[ST_TS],
  shape="STR+1 node", bounds="all texts <= 9 bytes over {a,\\n}, every node range, before,after <= 2; unwind 11")

# ---------------------------------------------------------------- C10
for ln in range(5):
    H(prop="C10", name=f"c10_input_edit_exact_len{ln}", crate="core-h", module="c10_edit", mem_gb=20, timeout=3600, tier="quick" if ln <= 2 else "thorough",
      decides="AstGrep::edit: new text == splice; the old tree receives exactly one Tree::edit whose InputEdit is a valid description of the change (text before start_byte and after old_end_byte / new_end_byte unchanged, equal tail lengths, the three row/col points are those of the three offsets); re-parse is given the old tree",
      functions=["ast_grep_core::node::Root::do_edit", "ast_grep_core::source::perform_edit",
                 "ast_grep_core::source::<String as Content>::accept_edit", "ast_grep_core::source::position_for_offset"],
      assumes=[ST_TS, "tree-sitter contract: incremental parse == fresh parse iff the old tree was edited exactly once with an InputEdit outside whose range the text is unchanged"],
      shape="STR", bounds=f"text length {ln}: every (position, deleted length, inserted length <= 2) size class enumerated concretely x symbolic contents over {{a,\\n}}/{{b,\\n}}; unwind 7")
for ln in (1, 2):
    H(prop="C10", name=f"c10_input_edit_multibyte_len{ln}", crate="core-h", module="c10_edit", mem_gb=20, timeout=1800, tier="quick" if ln == 1 else "thorough", min_covers=1,  # the row witness is dead code in this mode
      decides="AstGrep::edit inserting the two-byte character U+00E9: new text == splice; exactly one Tree::edit whose InputEdit counts BYTES (new_end_byte = position + 2) and whose points are exact",
      functions=["ast_grep_core::node::Root::do_edit", "ast_grep_core::source::perform_edit",
                 "ast_grep_core::source::<String as Content>::accept_edit", "ast_grep_core::source::position_for_offset"],
      assumes=[ST_TS, "tree-sitter contract: incremental parse == fresh parse iff the old tree was edited exactly once with an InputEdit outside whose range the text is unchanged"],
      shape="STR", bounds=f"text length {ln} over {{a,\\n}} (symbolic contents), every (position, deleted length), inserted text = U+00E9 (2 bytes, concrete); unwind 7")

# ---------------------------------------------------------------- small config kernels
H(prop="C20", name="c20_resolve_char_python", crate="config-h", module="small_kernels",
  decides="resolve_char(index, default, len) == Python slice index normalisation",
  functions=["ast_grep_config::transform::transformation::resolve_char"],
  shape="INT", bounds="index: full i32 or absent; len: every i32 >= 0; default in {0, len}")
for _v, _how in (("node", "bound to $A through MetaVarEnv::insert (text read from the document)"),
                  ("transformed", "provided as an earlier transformation's output (MetaVarEnv::insert_transformation)")):
    H(prop="C20", name=f"c20_substring_chars_{_v}", crate="config-h", module="c20_substring", stubbing=True, tier="lab",
      assumes=[ST_TS, ST_MAP, ST_REGEX, ST_UTF8], timeout=1800, mem_gb=24,
      decides="Substring::compute(s, startChar, endChar) == Python s[start:end] on characters (not bytes)",
      functions=["ast_grep_config::transform::transformation::Substring::compute",
                 "ast_grep_config::transform::transformation::resolve_char",
                 "ast_grep_core::meta_var::MetaVarEnv::get_var_bytes"],
      shape="STR", bounds=f"captured text fixed: 'a e-acute euro U+1F600' (10 bytes, 4 characters), {_how}; startChar / endChar: absent or any i32; unwind 12")
for _v, _how in (("transformed", "provided as an earlier transformation's output"), ("node", "bound to $A through MetaVarEnv::insert (text read from the document)")):
    H(prop="C20", name=f"c20_substring_2ch_{_v}", crate="config-h", module="c20_substring", stubbing=True, tier="lab", also=["C11"],
      assumes=[ST_TS, ST_MAP, ST_REGEX, ST_UTF8], timeout=1800, mem_gb=24,
      decides="Substring::compute(s, startChar, endChar) == Python s[start:end] on characters (not bytes), and never panics",
      functions=["ast_grep_config::transform::transformation::Substring::compute",
                 "ast_grep_config::transform::transformation::resolve_char",
                 "ast_grep_core::meta_var::MetaVarEnv::get_var_bytes"],
      shape="STR", bounds=f"captured text fixed: 'a e-acute' (3 bytes, 2 characters), {_how}; startChar / endChar: absent or any i32; unwind 6")
for _v in ("start", "end"):
    H(prop="C20", name=f"c20_substring_chars_{_v}_only", crate="config-h", module="c20_substring", stubbing=True, tier="lab",
      assumes=[ST_TS, ST_MAP, ST_REGEX, ST_UTF8], timeout=1800, mem_gb=24,
      decides="Substring::compute(s, startChar, endChar) == Python s[start:end] on characters (not bytes)",
      functions=["ast_grep_config::transform::transformation::Substring::compute",
                 "ast_grep_config::transform::transformation::resolve_char",
                 "ast_grep_core::meta_var::MetaVarEnv::get_var_bytes"],
      shape="STR", bounds=f"captured text fixed: 'a e-acute euro U+1F600' (10 bytes, 4 characters) provided as an earlier transformation's output; {_v}Char: any i32, the other index absent; unwind 12")
H(prop="C11", name="c11_transform_source_total", crate="config-h", module="small_kernels", stubbing=True, assumes=[ST_REGEX],
  decides="Transformation::used_vars / parse never panic on any `source` string",
  functions=["ast_grep_config::transform::transformation::Transformation::used_vars",
             "ast_grep_config::transform::transformation::parse_meta_var"],
  shape="STR", bounds="every length 0..3 (concrete loop) x symbolic bytes over {$, A, a, 0xC3, 0xA9} restricted to valid UTF-8; unwind 6",
  kf_keys=["transform_source_first_char"])
for t in range(6):
    H(prop="C14", name=f"c14_suppress_set_parse_t{t}", crate="config-h", module="small_kernels", tier="quick" if t <= 3 else "thorough", timeout=1800,
      decides="parse_suppression_set(comment) == ids listed after `ast-grep-ignore:` (trimmed), None iff nothing listed",
      functions=["ast_grep_config::combined::parse_suppression_set"],
      shape="STR", bounds=f"`// ast-grep-ignore` + every tail of exactly {t} bytes over {{a,b,:,',',' '}}; unwind 26")

# ---------------------------------------------------------------- C19
NAV = {
 "children_parent": ("children()/parent()/child(i)/is_leaf agree with the arena; child ranges nest and are ordered", ["ast_grep_core::node::Node::children", "ast_grep_core::node::Node::child", "ast_grep_core::node::Node::parent"]),
 "ancestors_chain": ("ancestors() == iterated parent(), nearest first", ["ast_grep_core::node::Node::ancestors"]),
 "siblings_iter": ("next_all()/prev_all() == iterated next()/prev() (non-zero-width nodes)", ["ast_grep_core::node::Node::next_all", "ast_grep_core::node::Node::prev_all"]),
 "pre_order": ("Pre from any start node visits exactly its subtree, once each, in pre-order", ["ast_grep_core::traversal::Pre::next", "ast_grep_core::traversal::Pre::trace_up"]),
 "post_order": ("Post from any start node visits exactly its subtree, once each, in post-order", ["ast_grep_core::traversal::Post::next", "ast_grep_core::traversal::Post::trace_down"]),
 "level_order": ("Level from any start node visits exactly its subtree, once each, level by level", ["ast_grep_core::traversal::Level::next"]),
}
for key, (dec, funcs) in NAV.items():
    if key == "level_order":
        # `Level` keeps a VecDeque of nodes; with a symbolic start node / shape the CBMC instance
        # exhausts 24 GB or 900 s already at 3 nodes (measured). So shapes and start nodes are
        # enumerated by concrete loops and only the labels are symbolic (stated in bounds).
        H(prop="C19", name="c19_level_order_shapes_n4", crate="core-h", module="c19_nav", decides=dec, functions=funcs, assumes=[ST_TS],
          shape="9 concrete shapes <= 4 nodes", bounds="all 9 pre-order shapes of <= 4 nodes x every start node (concrete loops) x symbolic named bits and widths 0-2; unwind 10", timeout=1200, mem_gb=20)
        continue
    H(prop="C19", name=f"c19_{key}_n4", crate="core-h", module="c19_nav", decides=dec, functions=funcs, assumes=[ST_TS],
      shape="ANY(4)", bounds="every tree of <= 4 nodes (symbolic pre-order parent vector), symbolic kinds/named bits, leaf widths 0-2 (1-2 for sibling clauses), gaps 0-1, every start node; unwind 10")
    H(prop="C19", name=f"c19_{key}_n5", crate="core-h", module="c19_nav", tier="thorough", decides=dec, functions=funcs, assumes=[ST_TS],
      shape="ANY(5)", bounds="every tree of <= 5 nodes (symbolic pre-order parent vector), symbolic kinds/named bits, leaf widths 0-2 (1-2 for sibling clauses), gaps 0-1, every start node; unwind 10", timeout=3000, mem_gb=20)

# ---------------------------------------------------------------- C03 / C02 alignment (FLAT)
REC_FLAT = {
  "ast_grep_core::match_tree::does_node_match_exactly::<": 1,
  "ast_grep_core::match_tree::match_node::match_node_impl::<": 1,
  "ast_grep_core::match_tree::match_node::match_nodes_impl_recursive::<": 1,
  "ast_grep_core::match_tree::match_node::may_match_ellipsis_impl::<": 1,
}
# matcher loops iterate over goals/candidates (<= 4 here); the global unwind must be 8 for the
# 7-byte kind-name compares, so these loops get their own smaller bound (assertions stay on)
LOOPS_FLAT = {
  "ast_grep_core::match_tree::match_node::match_nodes_impl_recursive::<": 6,
  "ast_grep_core::match_tree::match_node::may_match_ellipsis_impl::<": 6,
  "ast_grep_core::match_tree::match_node::match_single_node_while_skip_trivial::<": 6,
}
ALIGN_FUNCS = ["ast_grep_core::match_tree::match_node::match_node_impl", "ast_grep_core::match_tree::match_node::match_nodes_impl_recursive",
               "ast_grep_core::match_tree::match_node::may_match_ellipsis_impl", "ast_grep_core::match_tree::strictness::MatchStrictness::match_terminal",
               "ast_grep_core::meta_var::MetaVarEnv::insert"]
ALIGN_ASSUMES = [ST_TS, "namedness is a function of the kind id; anonymous tokens' text is fixed by their kind"]
KF_ELL = ["ellipsis_skips_following_tokens"]
ALIGN_ENV = [  # (harness suffix, pattern children, k, tier)
  ("t_cap_k1", "[T,$A]", 1, "quick"), ("t_cap_k2", "[T,$A]", 2, "quick"),
  ("t_t_k2", "[T,T]", 2, "quick"), ("capany_t_k2", "[$$A,T]", 2, "quick"), ("ell_t_k2", "[$$$,T]", 2, "quick"),
  ("t_cap_t_k2", "[T,$A,T]", 2, "thorough"), ("t_cap_t_k3", "[T,$A,T]", 3, "thorough"),
  ("t_t_k3", "[T,T]", 3, "thorough"), ("t_ell_t_k3", "[T,$$$B,T]", 3, "thorough"),
]
for suf, pat, k, tier in ALIGN_ENV:
    H(prop="C03", name=f"c03_env_{suf}", crate="core-h", module="c03_align", kani_args=LIGHT, recursion=REC_FLAT, loops=LOOPS_FLAT, features=["hooks", "n4"], timeout=1500 if tier == "quick" else 5400, tier=tier, mem_gb=20,
      decides=f"pattern {pat}: match_node = Some on a FLAT({k}) node => a legal alignment exists (oracle written from the property text)",
      functions=ALIGN_FUNCS, assumes=ALIGN_ASSUMES + [ST_MAP], kf_keys=KF_ELL,
      shape=f"FLAT({k})", bounds=f"exactly {k} candidate leaves with symbolic kind in {{ident,number,comment,punct_a,punct_b}}, 1-byte texts over {{x,y}}; goal terminals symbolic incl. ERROR kind; all 5 strictness; arena of 4 nodes, unwind 8 (matcher loops 6), alignment driven via match_nodes_impl_recursive, recursion depth 1")
for suf, pat, k, tier in (("t_cap_t_k2", "[T,$A,T]", 2, "quick"), ("ell_t_k2", "[T,$$$,T]", 2, "quick"), ("t_cap_t_k3", "[T,$A,T]", 3, "thorough")):
    H(prop="C03", name=f"c03_len_{suf}", crate="core-h", module="c03_align", kani_args=LIGHT, recursion=REC_FLAT, loops=LOOPS_FLAT, features=["hooks", "n4"], timeout=1500 if tier == "quick" else 5400, tier=tier, mem_gb=20,
      decides=f"pattern {pat}: get_match_len = Some(len) on a FLAT({k}) node with 2-byte children => len <= node length and len ends at a child end",
      functions=ALIGN_FUNCS[:4] + ["ast_grep_core::match_tree::ComputeEnd"], assumes=ALIGN_ASSUMES,
      shape=f"FLAT({k})", bounds=f"exactly {k} candidate leaves (2 bytes wide), symbolic labels, all 5 strictness; arena of 4 nodes, unwind 8 (matcher loops 6), alignment driven via match_nodes_impl_recursive, recursion depth 1")

for suf, lvl, k in (("ast_k2", "ast", 2), ("smart_k2", "smart", 2), ("cst_k2", "cst", 2), ("signature_k2", "signature", 2), ("ast_k3", "ast", 3), ("relaxed_k3", "relaxed", 3)):
    H(prop="C03", name=f"c03_tt_{suf}", crate="core-h", module="c03_align", kani_args=LIGHT, recursion=REC_FLAT, loops=LOOPS_FLAT, features=["hooks", "n4"], timeout=2400, tier="thorough", mem_gb=24,
      decides=f"pattern [T,T] (two terminal children) under strictness {lvl}: the sibling alignment accepts a FLAT({k}) node => a legal alignment exists (every goal matched or skippable, every candidate matched or skippable, order kept)",
      functions=ALIGN_FUNCS[:4] + ["ast_grep_core::match_tree::match_node::match_single_node_while_skip_trivial", "ast_grep_core::match_tree::ComputeEnd"], assumes=ALIGN_ASSUMES,
      shape=f"FLAT({k})", bounds=f"2 goal terminals and exactly {k} candidate leaves (2 bytes wide) with symbolic kind in {{ident,number,comment,punct_a,punct_b}} and text; strictness {lvl} (concrete); arena of 4 nodes, unwind 8 (matcher loops 6), recursion depth 1")

for suf, lvl in (("ast_k2", "ast"), ("relaxed_k2", "relaxed")):
    H(prop="C03", name=f"c03_sep_{suf}", crate="core-h", module="c03_align", kani_args=LIGHT, recursion=REC_FLAT, loops=LOOPS_FLAT, features=["hooks", "n4"], timeout=3000, tier="lab", mem_gb=30,
      decides=f"pattern children `x ,` (named leaf, then unnamed separator) under strictness {lvl}: the sibling alignment accepts a FLAT(2) node => a legal alignment exists",
      functions=ALIGN_FUNCS[:4] + ["ast_grep_core::match_tree::match_node::match_single_node_while_skip_trivial", "ast_grep_core::match_tree::ComputeEnd"], assumes=ALIGN_ASSUMES,
      shape="FLAT(2)", bounds=f"goals concrete (ident `x`, punct), 2 candidate leaves with symbolic kind in {{ident,number,comment,punct_a,punct_b}} and text; strictness {lvl}; unwind 8 (matcher loops 6), recursion depth 1")

LAYS = [("sep_vs_two_named", "`x ,`", "`x y`"), ("sep_vs_sep_named", "`x ,`", "`x , y`"), ("two_vs_comment_between", "`x y`", "`x /*c*/ y`"),
        ("one_vs_trailing_tok", "`x`", "`x ,`"), ("one_vs_leading_tok", "`x`", "`, x`"), ("tok_first_vs_one", "`, x`", "`x`")]
for suf, gl, cl in LAYS:
    H(prop="C03", name=f"c03_lay_{suf}", crate="core-h", module="c03_align", kani_args=LIGHT, recursion=REC_FLAT, loops=LOOPS_FLAT, features=["hooks", "n4"], timeout=1800, tier="thorough", mem_gb=24,
      decides=f"pattern children {gl} against node children {cl}: the sibling alignment accepts => a legal alignment exists at that strictness (every goal matched or skippable, every candidate matched or skippable, order kept)",
      functions=ALIGN_FUNCS[:4] + ["ast_grep_core::match_tree::match_node::match_single_node_while_skip_trivial", "ast_grep_core::match_tree::ComputeEnd"], assumes=ALIGN_ASSUMES,
      shape="FLAT", bounds=f"kind layout concrete (goals {gl}, candidates {cl}); texts of the named leaves symbolic over {{x,y}}; all 5 strictness levels (symbolic); unwind 8 (matcher loops 6), recursion depth 1")

H(prop="C03", name="c03_layc_sep_vs_two_named_ast", crate="core-h", module="c03_align", kani_args=LIGHT, recursion=REC_FLAT, loops=LOOPS_FLAT, features=["hooks", "n4"], timeout=1800, tier="lab", mem_gb=24,
  decides="pattern children `x ,` against node children `x y` under ast: the sibling alignment accepts => a legal alignment exists",
  functions=ALIGN_FUNCS[:4], assumes=ALIGN_ASSUMES, shape="FLAT", bounds="kind layout and strictness concrete; texts of the named leaves symbolic over {x,y}; unwind 8")
H(prop="C03", name="c03_terminal_step", crate="core-h", module="c03_terminal", features=["hooks", "n4"],
  decides="match_terminal / should_skip_trailing == decision table of the strictness documentation; MatchedBoth => kinds agree (or goal ERROR) and (unnamed or text equal or signature)",
  functions=["ast_grep_core::match_tree::strictness::MatchStrictness::match_terminal", "ast_grep_core::match_tree::strictness::MatchStrictness::should_skip_trailing"],
  assumes=ALIGN_ASSUMES, shape="1 goal x 1 candidate", bounds="goal/candidate kinds in {ident,number,comment,punct_a,punct_b} (+ERROR goal), 1-byte texts, all 5 strictness; unwind 10")
H(prop="C03", name="c03_should_skip_goal", crate="core-h", module="c03_terminal",
  decides="should_skip_goal consumes exactly the maximal prefix of goals the strictness lets stay unmatched (ellipsis; unnamed holes/tokens under ast/relaxed/signature)",
  functions=["ast_grep_core::match_tree::strictness::MatchStrictness::should_skip_goal"],
  shape="<=2 goals", bounds="every sequence of <= 2 goals over 6 variants (concrete loops) x symbolic named bits x all 5 strictness; unwind 8")
H(prop="C03", name="c03_kinds_error_wildcard", crate="core-h", module="c03_terminal",
  decides="are_kinds_matching(goal, cand) <=> goal == cand or goal == ERROR(65535)",
  functions=["ast_grep_core::matcher::kind::kind_utils::are_kinds_matching"], shape="INT", bounds="all u16 x u16")

# ---------------------------------------------------------------- C04 / C01 ops
OPS_ASSUMES = [ST_TS, ST_MAP, "stub children EnvM: symbolic verdict, optional binding written BEFORE answering (may write and then fail)"]
NOMEM = LIGHT
H(prop="C04", name="c04_ops_any_env", crate="core-h", module="c04_ops", features=["hooks", "n4"], kani_args=NOMEM, timeout=1800, mem_gb=30, recursion={"ast_grep_core::match_tree::does_node_match_exactly::<": 1},
  decides="ops::Any: success exposes exactly the first succeeding branch's bindings on top of the base env; failure leaves the env unchanged; caller's env never mutated",
  functions=["ast_grep_core::ops::Any::match_node_with_env", "ast_grep_core::meta_var::MetaVarEnv::insert", "ast_grep_core::match_tree::does_node_match_exactly"],
  assumes=OPS_ASSUMES, shape="root + 2 leaves", bounds="3 alternatives, names {A,B}, symbolic pre-existing binding, equal/different leaf texts; unwind 10")
H(prop="C04", name="c04_ops_all_env", crate="core-h", module="c04_ops", features=["hooks", "n4"], kani_args=NOMEM, timeout=1800, mem_gb=30, recursion={"ast_grep_core::match_tree::does_node_match_exactly::<": 1},
  decides="ops::All: success exposes the union of bindings; failure (incl. a child that wrote and then failed, or a conflicting binding) leaves the env unchanged",
  functions=["ast_grep_core::ops::All::match_node_with_env", "ast_grep_core::meta_var::MetaVarEnv::insert", "ast_grep_core::match_tree::does_node_match_exactly"],
  assumes=OPS_ASSUMES, shape="root + 2 leaves", bounds="3 conjuncts, names {A,B}, symbolic pre-existing binding, equal/different leaf texts; unwind 10")
H(prop="C01", name="c01_kinds_algebra", crate="core-h", module="c04_ops",
  decides="All/Any: verdict = conjunction/disjunction of children; cached potential_kinds = intersection (None-skipping) / union (None-absorbing) of children's sets, so the kind gate never rejects an accepted node",
  functions=["ast_grep_core::ops::All::compute_kinds", "ast_grep_core::ops::Any::compute_kinds", "ast_grep_core::ops::All::match_node_with_env", "ast_grep_core::ops::Any::match_node_with_env"],
  assumes=[ST_TS, "children accept only kinds they advertise (Matcher contract)"], shape="1 node", bounds="3 children, kind sets = symbolic masks over kinds 1..8 or None, node kind 1..8; unwind 10")

# ---------------------------------------------------------------- C05 relational rules
REL_ASSUMES = [ST_TS, ST_SERDE, ST_MAP, "no zero-width nodes; a field labels at most one child (the reference's own preconditions)"]
REC_RULE = {
  # drop glue of the recursive rule types: SerializableRule has 13 optional recursive fields, so
  # every extra level multiplies the inlined code by ~13; the values built by the harnesses nest
  # <= 2 levels (CBMC's recursion unwinding assertion fails the harness if that is ever too small)
  "std::ptr::drop_glue::<ast_grep_config::Rule<": 3,
  "std::ptr::drop_glue::<std::boxed::Box<ast_grep_core::ops::Not<": 3,
  "std::ptr::drop_glue::<ast_grep_core::ops::Not<": 3,
  "std::ptr::drop_glue::<ast_grep_config::SerializableRule>": 2,
  "std::ptr::drop_glue::<std::boxed::Box<ast_grep_config::": 2,
  "std::ptr::drop_glue::<ast_grep_config::verif_hooks::Relation>": 2,
  "std::ptr::drop_glue::<ast_grep_config::verif_hooks::Maybe<": 2,
  "std::ptr::mut_ptr::<impl *mut [ast_grep_config::SerializableRule]>::drop_in_place": 2,
  "std::ptr::drop_glue::<[ast_grep_config::SerializableRule]>": 2,
  "std::ptr::drop_glue::<std::vec::Vec<ast_grep_config::SerializableRule>>": 2,
  # `Rule` is a 13-way dispatch that the symbolic engine cannot constant-fold through the heap:
  # every extra recursion level multiplies the inlined code by ~13. The rule values built by the
  # harnesses nest exactly 2 levels (outer rule -> inner/stop rule); `Has` recurses down the tree.
  "<ast_grep_config::rule::relational_rule::Has<": 4,
  "<ast_grep_config::Rule<": 2,
  "ast_grep_core::match_tree::does_node_match_exactly::<": 1,
}
REL_FUNCS = {
  "has": ["ast_grep_config::rule::relational_rule::Has::match_node_with_env"],
  "inside": ["ast_grep_config::rule::relational_rule::Inside::match_node_with_env"],
  "follows": ["ast_grep_config::rule::relational_rule::Follows::match_node_with_env", "ast_grep_core::node::Node::prev_all"],
  "precedes": ["ast_grep_config::rule::relational_rule::Precedes::match_node_with_env", "ast_grep_core::node::Node::next_all"],
}
REL_DIRECT_ASSUMES = [ST_TS, ST_MAP, ST_REGEX, "rule values built from parts through hook constructors (the YAML/serde half and deserialize_rule are not executed: ST6)",
                      "no zero-width nodes; a field labels at most one child (the reference's own preconditions)"]
for rel in ("has", "inside", "follows", "precedes"):
    for stop in ("neighbor", "end", "rule"):
        H(prop="C05", name=f"c05d_{rel}_{stop}_n4", crate="config-h", module="c05_rel", kani_args=LIGHT,
          decides=f"`{rel}: {{kind: number_, stopBy: {stop}}}` matches node x <=> reference evaluator (quantification over {rel} candidates limited by stopBy, stop rule inclusive), for every node x",
          functions=REL_FUNCS[rel] + ["ast_grep_config::rule::stop_by::StopBy::find", "ast_grep_config::rule::stop_by::inclusive_until"],
          assumes=REL_DIRECT_ASSUMES, shape="ANY(4)", bounds="every tree <= 4 nodes with kinds in {ident,number,comment}, every target node incl. the root; unwind 10, Rule dispatch depth 2", timeout=1800, mem_gb=20,
          stubbing=True, recursion=REC_RULE)
for rel in ("has", "inside"):
    for stop in ("neighbor", "end", "rule"):
        H(prop="C05", name=f"c05d_{rel}_field_{stop}_n4", crate="config-h", module="c05_rel", kani_args=LIGHT,
          decides=f"`{rel}: {{kind: number_, stopBy: {stop}, field: fielda}}` matches node x <=> reference evaluator, for every node x",
          functions=REL_FUNCS[rel] + ["ast_grep_config::rule::stop_by::StopBy::find"],
          assumes=REL_DIRECT_ASSUMES, shape="ANY(4)", bounds="every tree <= 4 nodes, symbolic field labels, every target node; unwind 10", timeout=1800, mem_gb=20,
          stubbing=True, recursion=REC_RULE, tier="quick" if stop != "neighbor" else "thorough",
          kf_keys=["has_field_stop_rule_depth"] if (rel, stop) == ("has", "rule") else [])
for rel in ("has", "inside", "follows", "precedes"):
    H(prop="C05", name=f"c05d_{rel}_rule_n5", crate="config-h", module="c05_rel", tier="thorough", kani_args=LIGHT,
      decides=f"`{rel}: {{kind: number_, stopBy: {{kind: comment}}}}` matches node x <=> reference evaluator",
      functions=REL_FUNCS[rel] + ["ast_grep_config::rule::stop_by::StopBy::find", "ast_grep_config::rule::stop_by::inclusive_until"],
      assumes=REL_DIRECT_ASSUMES, shape="ANY(5)", bounds="every tree <= 5 nodes, every target node; unwind 10", timeout=5400, mem_gb=24,
      stubbing=True, recursion=REC_RULE)
# the same semantics through the real `deserialize_rule` (serializable rule objects): one
# representative per relation, thorough tier only (20+ minutes of symbolic execution each)
for rel, stop in (("has", "rule"), ("inside", "end"), ("follows", "rule"), ("precedes", "neighbor")):
    H(prop="C05", name=f"c05_{rel}_{stop}_n4", crate="config-h", module="c05_rel", tier="thorough", kani_args=LIGHT,
      decides=f"`{rel}: {{kind: number_, stopBy: {stop}}}` built by deserialize_rule from a SerializableRule matches node x <=> reference evaluator",
      functions=REL_FUNCS[rel] + ["ast_grep_config::rule::deserialize_rule", "ast_grep_config::rule::stop_by::StopBy::try_from"],
      assumes=REL_ASSUMES + [ST_REGEX], shape="ANY(4)", bounds="every tree <= 4 nodes, every target node; unwind 10", timeout=5400, mem_gb=24,
      stubbing=True, recursion=REC_RULE)

# ---------------------------------------------------------------- C14 scan with suppressions
SCAN_FUNCS = ["ast_grep_config::combined::CombinedScan::scan", "ast_grep_config::combined::CombinedScan::new", "ast_grep_config::combined::Suppressions::collect",
              "ast_grep_config::combined::Suppressions::check_suppression", "ast_grep_config::combined::MaySuppressed::suppressed_id", "ast_grep_config::combined::parse_suppression_set"]
SCAN_ASSUMES = [ST_TS, ST_SERDE, ST_MAP, ST_REGEX, "rule configs built from parts through hook constructors (YAML and deserialize_rule not executed)", "single-line statements/comments; node rows are symbolic and independent of the (concrete) comment texts"]
LAYOUTS = [("ignra_stmta", "[ignore:ra, stmt-a]", "quick"), ("stmta_ignall", "[stmt-a, ignore-all]", "quick"), ("ignrb_stmta", "[ignore:rb, stmt-a]", "thorough"), ("stmtb_ignra", "[stmt-b, ignore:ra]", "thorough"),
           ("ignra_stmta_ignrb", "[ignore:ra, stmt-a, ignore:rb]", "quick"), ("stmta_ignall_stmtb", "[stmt-a, ignore-all, stmt-b]", "thorough"),
           ("plain_ignrb_stmtb", "[plain comment, ignore:rb, stmt-b]", "thorough"), ("stmta_ignra_ignrb", "[stmt-a, ignore:ra, ignore:rb]", "thorough")]
for suf, desc, tier in LAYOUTS:
    H(prop="C14", name=f"c14_{suf}", crate="config-h", module="c14_scan", stubbing=True, recursion=REC_RULE, timeout=2400 if tier == "quick" else 5400, mem_gb=20, tier=tier,
      decides="finding (rule,node) reported <=> rule matches node and no applicable suppression (own-line comment on the previous line, or end-of-line comment on the same line, listing the rule or nothing); nothing duplicated",
      functions=SCAN_FUNCS, assumes=SCAN_ASSUMES, kf_keys=["suppression_same_target_line"], shape=f"FLAT({desc.count(',')+1})",
      bounds=f"children {desc} (texts concrete), every monotone assignment of lines in [0,4] symbolic; rules ra (kind a), rb (kinds a or b) + unused-suppression rule; unwind 10")

# ---------------------------------------------------------------- C01 kind-set algebra kernels
for nm, op in (("all", "All::new: intersection, children without a set skipped"), ("any", "Any::new: union, a child without a set makes the result None")):
    H(prop="C01", name=f"c01k_kinds_{nm}", crate="core-h", module="c04_ops", features=["hooks", "n4"], timeout=1800, mem_gb=16,
      decides=f"the kind set cached by ops::{op} == the set computed from the children's advertised sets, so the kind gate never drops a node the composite could accept",
      functions=["ast_grep_core::ops::All::new", "ast_grep_core::ops::All::compute_kinds", "ast_grep_core::ops::Any::new", "ast_grep_core::ops::Any::compute_kinds", "ast_grep_core::matcher::Matcher::potential_kinds"],
      assumes=["children are stub matchers whose advertised kind set is a symbolic mask over kind ids 1..8, or None"],
      shape="3 children", bounds="three children; which of them advertise a set: all 8 patterns (concrete loop); each set a symbolic mask over ids 1..8; bit sets of fixed capacity 16; unwind 10")

for nm, form in (("all_not", "all[kind k1, not kind k2]"), ("any", "any[kind k1, kind k2]"), ("not_any", "not any[kind k1, kind k2]"), ("all_any_not", "all[any[kind k1, kind k2], not kind k3]")):
    H(prop="C01", name=f"c01k_rule_kinds_{nm}", crate="config-h", module="c05_ops", timeout=1800, mem_gb=20, stubbing=True, recursion=REC_RULE,
      assumes=[ST_REGEX], decides=f"Rule::potential_kinds of {form} contains every kind the rule accepts (reference semantics), and is exactly the documented set (all = intersection skipping set-less children, any = union, not = no set)",
      functions=["ast_grep_config::rule::Rule::potential_kinds", "ast_grep_core::ops::All::compute_kinds", "ast_grep_core::ops::Any::compute_kinds", "ast_grep_core::ops::Not::potential_kinds", "ast_grep_core::matcher::KindMatcher::potential_kinds"],
      shape="1 rule", bounds="k1, k2, k3 and the node kind symbolic in 1..8; rule value built from parts; unwind 10, Rule dispatch depth 3")

# ---------------------------------------------------------------- C04 env kernels
for op in ("any", "all"):
    for pat, desc in (("a0_b1", "child 0 binds A to leaf 0, child 1 binds B to leaf 1"), ("a0_a1", "both children bind A, to different leaves (coherent only if the leaves' texts are equal)"), ("a0_none", "child 0 binds A to leaf 0, child 1 binds nothing")):
        H(prop="C04", name=f"c04k_{op}_{pat}", crate="core-h", module="c04_ops", features=["hooks", "n4"], timeout=1800, mem_gb=24,
          decides=f"ops::{op.capitalize()} over two children that may bind a variable and then fail ({desc}): the match verdict and the environment exposed afterwards equal the reference (any = exactly the first winning branch, all = the union, failure = untouched); the caller's environment is never modified",
          functions=[f"ast_grep_core::ops::{op.capitalize()}::match_node_with_env", "ast_grep_core::meta_var::MetaVarEnv::insert", "ast_grep_core::match_tree::does_node_match_exactly"],
          assumes=[ST_TS, ST_MAP, "children are stub matchers (bind, then answer a symbolic verdict)"],
          shape="root + 2 leaves", bounds="write pattern concrete; both verdicts symbolic; the two leaves' 1-byte texts equal or different (symbolic); empty caller environment; unwind 5")

# ---------------------------------------------------------------- C05 nthChild kernel
H(prop="C05", name="c05k_nth_child_position_n4", crate="config-h", module="c05_nth", features=["hooks", "n4"], timeout=1800, mem_gb=16, stubbing=True, assumes=[ST_TS, ST_REGEX],
  decides="NthChild (no ofRule) matches node X <=> X is named, has a parent, and its 1-based position among the parent's named children (from the end when reverse) is A*m+B for some m >= 0",
  functions=["ast_grep_config::rule::nth_child::NthChild::match_node_with_env", "ast_grep_config::rule::nth_child::NthChild::find_index",
             "ast_grep_config::rule::nth_child::FunctionalPosition::is_matched", "ast_grep_core::node::Node::parent", "ast_grep_core::node::Node::children"],
  shape="ANY(4)", bounds="every tree with <= 4 nodes (symbolic shape, kinds, named flags), every node; A in [-2,2], B in [-2,4], reverse symbolic; unwind 10")

H(prop="C05", name="c05k_nth_child_position_n5", crate="config-h", module="c05_nth", features=["hooks"], timeout=3600, mem_gb=30, stubbing=True, tier="thorough", assumes=[ST_TS, ST_REGEX],
  decides="NthChild (no ofRule) matches node X <=> X is named, has a parent, and its 1-based position among the parent's named children (from the end when reverse) is A*m+B for some m >= 0",
  functions=["ast_grep_config::rule::nth_child::NthChild::match_node_with_env", "ast_grep_config::rule::nth_child::NthChild::find_index"],
  shape="ANY(5)", bounds="every tree with <= 5 nodes (symbolic shape, kinds, named flags), every node; A in [-2,2], B in [-2,4], reverse symbolic; unwind 10")
H(prop="C05", name="c05k_nth_child_of_rule_n4", crate="config-h", module="c05_nth", features=["hooks", "n4"], timeout=1800, mem_gb=20, stubbing=True, recursion=REC_RULE, assumes=[ST_TS, ST_REGEX],
  decides="NthChild with ofRule {kind: number} matches node X <=> X is a named `number` child and its 1-based position among the parent's named `number` children (from the end when reverse) is A*m+B for some m >= 0",
  functions=["ast_grep_config::rule::nth_child::NthChild::match_node_with_env", "ast_grep_config::rule::nth_child::NthChild::find_index", "ast_grep_config::rule::Rule::match_node_with_env"],
  shape="ANY(4)", bounds="every tree with <= 4 nodes (symbolic shape, named bits), kinds in {ident, number}, every node; A in [-1,2], B in [0,3], reverse symbolic; unwind 10")
H(prop="C05", name="c05k_range_position_3ch", crate="config-h", module="c05_range", timeout=1800, mem_gb=16, stubbing=True, assumes=[ST_TS, ST_REGEX],
  decides="RangeMatcher (rule key `range`) matches a node <=> the node's start and end are exactly the requested 0-based (line, character column) positions",
  functions=["ast_grep_config::rule::range::RangeMatcher::match_node_with_env", "ast_grep_core::node::Node::start_pos", "ast_grep_core::node::Node::end_pos",
             "ast_grep_core::Position::column", "ast_grep_core::source::Content::get_char_column"],
  shape="STR", bounds="one-node tree over the 9-byte text x0 U+00E9 x1 U+1F600 x2 with every x_i symbolic in {a, \\n}; every node range on character boundaries; requested lines in [0,3], columns in [0,5]; unwind 11")

for nm, form in (("all_not", "all[kind k1, not kind k2]"), ("any", "any[kind k1, kind k2]"), ("not_any", "not any[kind k1, kind k2]"), ("all_any_not", "all[any[kind k1, kind k2], not kind k3]")):
    H(prop="C05", name=f"c05k_logic_{nm}", crate="config-h", module="c05_ops", timeout=1800, mem_gb=20, stubbing=True, recursion=REC_RULE, tier="quick" if nm in ("all_not", "not_any") else "thorough",
      assumes=[ST_TS, ST_REGEX, ST_MAP], decides=f"rule {form} matches a node <=> the conjunction / disjunction / negation of the kind tests on that node",
      functions=["ast_grep_config::rule::Rule::match_node_with_env", "ast_grep_core::ops::All::match_node_with_env", "ast_grep_core::ops::Any::match_node_with_env", "ast_grep_core::ops::Not::match_node_with_env", "ast_grep_core::matcher::KindMatcher::match_node_with_env"],
      shape="1 node", bounds="one-node tree; node kind and k1, k2, k3 symbolic in 1..8; rule value built from parts; unwind 10, Rule dispatch depth 3")

# ---------------------------------------------------------------- C05 relational kernels (one call, ANY(4))
REL_K = [("inside", "neighbor", False), ("inside", "end", False), ("inside", "rule", False), ("inside_field", "end", True), ("inside_field", "rule", True),
         ("has", "neighbor", False), ("has", "end", False), ("has", "rule", False), ("has_field", "end", True),
         ("follows", "neighbor", False), ("follows", "end", False), ("follows", "rule", False),
         ("precedes", "neighbor", False), ("precedes", "end", False), ("precedes", "rule", False)]
REL_K_QUICK = {"inside_neighbor", "inside_end", "inside_field_end", "has_neighbor", "has_end", "has_field_end", "follows_neighbor", "follows_end", "precedes_neighbor", "precedes_end"}
REL_K_LAB = {"inside_rule", "inside_field_rule", "has_rule", "follows_rule", "precedes_rule"}  # stopBy rule: inclusive_until goes through MatcherExt::matches (NodeMatch + env clone): > 40 min
for rel, stop, fld in REL_K:
    nm = f"{rel}_{stop}"
    H(prop="C05", name=f"c05k_{nm}_n4", crate="config-h", module="c05_rel", features=["hooks", "n4"], timeout=2400, mem_gb=20, stubbing=True, recursion=REC_RULE,
      tier="quick" if nm in REL_K_QUICK else ("lab" if nm in REL_K_LAB else "thorough"), assumes=[ST_TS, ST_REGEX, "a field labels at most one child of a node (the reference's precondition)"],
      decides=f"{rel.split('_')[0]} (stopBy: {stop}{', field' if fld else ''}) with goal `kind: number` and stop rule `kind: comment` matches node X <=> the reference quantification over ancestors / descendants / later / earlier siblings limited by stopBy (and field) says so",
      functions=["ast_grep_config::rule::relational_rule::" + rel.split('_')[0].capitalize() + "::match_node_with_env", "ast_grep_config::rule::stop_by::StopBy::find",
                 "ast_grep_config::rule::stop_by::inclusive_until", "ast_grep_core::node::Node::ancestors", "ast_grep_core::node::Node::next_all", "ast_grep_core::node::Node::prev_all"],
      shape="ANY(4)", bounds="every tree with <= 4 nodes (symbolic shape), kinds in {ident, number, comment} and field labels symbolic, every node X; one matcher call; unwind 10")

for rel, fld in (("inside", False), ("inside_field", True), ("has", False), ("follows", False), ("precedes", False)):
    H(prop="C05", name=f"c05k_{rel}_end_n5", crate="config-h", module="c05_rel", features=["hooks"], timeout=3600, mem_gb=30, stubbing=True, recursion=REC_RULE, tier="lab" if fld else "thorough",  # inside_field_end_n5: out of 30 GB
      assumes=[ST_TS, ST_REGEX, "a field labels at most one child of a node (the reference's precondition)"],
      decides=f"{rel.split('_')[0]} (stopBy: end{', field' if fld else ''}) with goal `kind: number` matches node X <=> the reference quantification over ancestors / descendants / later / earlier siblings says so",
      functions=["ast_grep_config::rule::relational_rule::" + rel.split('_')[0].capitalize() + "::match_node_with_env", "ast_grep_config::rule::stop_by::StopBy::find"],
      shape="ANY(5)", bounds="every tree with <= 5 nodes (symbolic shape), kinds in {ident, number, comment} and field labels symbolic, every node X; one matcher call; unwind 10")

# ---------------------------------------------------------------- C14 table kernel
TABLE_FUNCS = ["ast_grep_config::combined::Suppressions::collect", "ast_grep_config::combined::Suppressions::check_suppression",
               "ast_grep_config::combined::MaySuppressed::suppressed_id", "ast_grep_config::combined::parse_suppression_set",
               "ast_grep_core::node::Node::dfs", "ast_grep_core::node::Node::prev"]
TABLES = [("ignra_stmt", "[ignore:ra, stmt]", "thorough"), ("stmt_ignall", "[stmt, ignore]", "thorough"), ("stmt_plain", "[stmt, plain comment]", "thorough"),
          ("ignra_stmt_ignrb", "[ignore:ra, stmt, ignore:rb]", "thorough"), ("stmt_ignall_stmt", "[stmt, ignore, stmt]", "thorough"),
          ("ignrb_ignra_stmt", "[ignore:rb, ignore:ra, stmt]", "thorough"), ("stmt_stmt_ignrb", "[stmt, stmt, ignore:rb]", "thorough")]
for suf, desc, tier in TABLES:
    H(prop="C14", name=f"c14_table_{suf}", crate="config-h", module="c14_table", tier=tier, timeout=1800, mem_gb=16,
      decides="a finding of rule id R starting on node N is silenced by the suppression table <=> an ast-grep-ignore comment listing R (or nothing) is on its own line directly above N's first line, or follows other code on N's first line",
      functions=TABLE_FUNCS, shape=f"FLAT({desc.count(',')+1})",
      assumes=["the rule loop of CombinedScan::scan (which rules match the node, the unused-suppression bookkeeping) is not part of this kernel: the hook suppression_verdict runs the collect pass and the table lookup only"],
      bounds=f"children {desc} (texts concrete); symbolic: start/end line of every child (monotone, <= 6), which child carries the finding, both bytes of the rule id (ASCII); unwind 24")

# ---------------------------------------------------------------- C01 combined dispatch
for name, n, fixmode, tier in (("c01_combined_dispatch_n3", 3, "false", "quick"), ("c01_combined_dispatch_fix_n3", 3, "true", "quick"), ("c01_combined_dispatch_n4", 4, "false", "thorough")):
    H(prop="C01", name=name, crate="config-h", module="c01_combined", kani_args=LIGHT, stubbing=True, recursion=REC_RULE, tier=tier, timeout=1800 if tier == "quick" else 5400, mem_gb=20,
      decides="CombinedScan::scan reports, per rule, exactly the nodes the rule matches individually, in document order, no duplicates (matches and diffs)",
      functions=["ast_grep_config::combined::CombinedScan::new", "ast_grep_config::combined::CombinedScan::scan", "ast_grep_config::rule_core::RuleCore::do_match", "ast_grep_core::ops::Any::match_node_with_env"],
      assumes=[ST_TS, ST_SERDE, ST_MAP, ST_REGEX, "rules' kind sets exclude the ERROR kind 65535 (65536-step table growth loop is out of reach)"],
      shape=f"ANY({n})", bounds=f"every tree <= {n} nodes, kinds 1..8 or ERROR on nodes; 3 rules (kind; kind; any of two kinds), one with fix, given to CombinedScan::new in unsorted order, separate_fix={fixmode}; unwind 10")

# ---------------------------------------------------------------- C11 / C12 config-level
CFG_ASSUMES = [ST_TS, ST_SERDE, ST_MAP, ST_REGEX]
H(prop="C11", name="c11_replace_regex_total", crate="config-h", module="c11_transform", kani_args=LIGHT, stubbing=True, recursion=REC_RULE, timeout=1800, mem_gb=20,
  decides="a rule with transform.replace either fails to load or scans a matching node without panicking, when Regex::new rejects the user's regex",
  functions=["ast_grep_config::transform::transformation::Replace::compute", "ast_grep_config::transform::transformation::Transformation::parse", "ast_grep_config::rule_core::SerializableRuleCore::get_matcher", "ast_grep_config::rule_core::RuleCore::do_match"],
  assumes=CFG_ASSUMES, shape="pattern f($A,$B) on f(p,qr)", bounds="one config family (source $A, any regex the regex crate rejects); unwind 10")
for name, desc, tier in (("c12_check_var_str_t1", "string fix, one transform", "quick"), ("c12_check_var_obj_t1", "object-form fix, one transform", "quick"), ("c12_check_var_str_t2", "string fix, two chained transforms", "thorough")):
    H(prop="C12", name=name, crate="config-h", module="c12_vars", kani_args=LIGHT, stubbing=True, recursion=REC_RULE, tier=tier, timeout=2400 if tier == "quick" else 5400, mem_gb=20,
      decides="get_matcher accepts <=> every variable used in constraints keys / transform sources / fix is defined and transforms are acyclic; and for an accepted rule the fix variable is replaced by its captured / transformed value",
      functions=["ast_grep_config::check_var::check_rule_with_hint", "ast_grep_config::transform::Transform::deserialize", "ast_grep_config::rule::deserialize_env::TopologicalSort::visit",
                 "ast_grep_config::fixer::Fixer::parse", "ast_grep_core::replacer::template::TemplateFix::generate_replacement", "ast_grep_config::transform::transformation::Substring::compute"],
      assumes=CFG_ASSUMES, kf_keys=["object_fix_ignores_transform"], shape="pattern f($A,$B) on f(p,qr)",
      bounds=f"{desc}; transform sources over {{$A,$B,$C,$T1,$T2}}, constraint key over {{none,A,B,C,T1}}, fix variable over {{A,B,C,T1,T2}} -- all symbolic; unwind 10")

for n, tier in ((4, "thorough"), (5, "thorough")):
    H(prop="C11", name=f"c11_string_case_split_{n}ch", crate="config-h", module="small_kernels", fq=f"small_kernels::proofs_case::c11_string_case_split_{n}ch", tier=tier,
      decides="string_case::split (word splitter of `convert`) never panics / slices off a char boundary; pieces are in-order non-overlapping sub-slices",
      functions=["ast_grep_config::transform::string_case::split", "ast_grep_config::transform::string_case::Delimiter::delimit", "ast_grep_config::transform::string_case::Delimiter::conclude"],
      assumes=[ST_UTF8], shape="STR", bounds=f"every byte length 0..{n} (concrete loop) x symbolic bytes over {{a, A, _, C3, 89}} restricted to valid UTF-8 (E-acute, upper case, 2 bytes); unwind {2*n}", timeout=1800 if n == 4 else 5400)

for ln, tier in ((3, "quick"), (4, "thorough")):
    H(prop="C11", name=f"c11_string_case_split_len{ln}", crate="config-h", module="small_kernels", fq=f"small_kernels::proofs_case::c11_string_case_split_len{ln}", tier=tier, timeout=1800, mem_gb=16,
      decides="string_case::split (word splitter of `convert`) never panics / slices off a char boundary; pieces are in-order non-overlapping sub-slices",
      functions=["ast_grep_config::transform::string_case::split", "ast_grep_config::transform::string_case::Delimiter::delimit", "ast_grep_config::transform::string_case::Delimiter::conclude"],
      assumes=[ST_UTF8], shape="STR", bounds=f"texts of exactly {ln} bytes, symbolic bytes over {{a, A, _, C3, 89}} restricted to valid UTF-8 (E-acute, upper case, 2 bytes); unwind 10")

# ---------------------------------------------------------------- C06 rewrite transformation
for k, tier in ((2, "quick"), (3, "thorough")):
    H(prop="C06", name=f"c06_rewrite_splice_k{k}", crate="config-h", module="c06_rewrite", kani_args=LIGHT, stubbing=True, recursion=dict(REC_RULE, **REC_FLAT), tier=tier, timeout=2400 if tier == "quick" else 5400, mem_gb=24,
      decides="rewrite transformation == captured text with exactly the rewriter-matched ranges substituted (every other byte preserved), also when the $$$ capture starts with an anonymous node",
      functions=["ast_grep_config::transform::rewrite::Rewrite::compute", "ast_grep_config::transform::rewrite::replace_one", "ast_grep_config::transform::rewrite::make_edit",
                 "ast_grep_config::rule_config::SerializableRuleConfig::register_rewriters", "ast_grep_core::matcher::node_match::NodeMatch::make_edit"],
      assumes=CFG_ASSUMES, shape=f"FLAT({k+1})", bounds=f"pattern f$$$R, rewriter kind:number -> `0`; {k} captured siblings each symbolically number / identifier / anonymous separator; unwind 10")


# ---------------------------------------------------------------- C07 indentation
H(prop="C07", name="c07_indent_at_offset_n8", crate="core-h", module="c07_indent",
  decides="get_indent_at_offset(prefix) == leading spaces of the last line of prefix",
  functions=["ast_grep_core::replacer::indent::get_indent_at_offset"], shape="STR", bounds="all prefixes <= 8 bytes over {' ',x,\\n} (below the 512-byte look-ahead window); unwind 10")
H(prop="C07", name="c07_reindent_grid", crate="core-h", module="c07_indent", timeout=1800, mem_gb=20, tier="lab",
  decides="indent_lines(to, extract_with_deindent(text, range)) == the block with every continuation line shifted from the column it was extracted at to the new column (first line untouched, relative indentation kept)",
  functions=["ast_grep_core::replacer::indent::extract_with_deindent", "ast_grep_core::replacer::indent::indent_lines",
             "ast_grep_core::replacer::indent::indent_lines_impl", "ast_grep_core::replacer::indent::remove_indent", "ast_grep_core::replacer::indent::get_indent_at_offset"],
  shape="STR", bounds="the block ab / <from+1 spaces>c / <from spaces>d extracted at column `from`, re-inserted at column `to`; (from, to) in {0,1,2}^2: one symbolic index, case-split. NOTE: inside a case nothing is symbolic (real code executed by the model checker on nine concrete cases); symbolic contents run out of memory (c07_indent_shift2_*); not past its second case after 11 min; unwind 22")
for _f, _t in ((0, 1), (0, 2), (1, 0), (1, 2), (2, 1)):
    H(prop="C07", name=f"c07_indent_shift2_{_f}_to_{_t}", crate="core-h", module="c07_indent", timeout=1800, mem_gb=20, tier="lab",
      decides="indent_lines(to, extract_with_deindent(text, range)) == the block with every continuation line shifted from the column it was extracted at to the new column (first line untouched)",
      functions=["ast_grep_core::replacer::indent::extract_with_deindent", "ast_grep_core::replacer::indent::indent_lines",
                 "ast_grep_core::replacer::indent::indent_lines_impl", "ast_grep_core::replacer::indent::remove_indent", "ast_grep_core::replacer::indent::get_indent_at_offset"],
      shape="STR", bounds=f"two lines of one symbolic character each, extracted at column {_f}, re-inserted at column {_t}; unwind 10")
for nm, desc, tier in (("c07_indent_shift_2_to_0", "from column 2 to 0", "thorough"), ("c07_indent_identity_1", "column 1 to 1 (self-rewrite)", "quick"),
                       ("c07_indent_shift_0_to_2", "from column 0 to 2", "thorough"), ("c07_indent_shift_2_to_1", "from column 2 to 1", "thorough")):
    H(prop="C07", name=nm, crate="core-h", module="c07_indent", timeout=1800, tier=tier,
      decides="indent_lines(to, extract_with_deindent(text, block)) == block with every continuation line shifted by (to - from); identity when to == from (rewriting a node to itself is a no-op)",
      functions=["ast_grep_core::replacer::indent::extract_with_deindent", "ast_grep_core::replacer::indent::indent_lines", "ast_grep_core::replacer::indent::remove_indent", "ast_grep_core::replacer::indent::indent_lines_impl"],
      assumes=["the property's precondition: continuation lines indented at least as far as the first line"],
      shape="STR", bounds=f"one 3-line block layout, {desc} (sizes concrete), line contents symbolic over {{x,y}}; unwind 34")

for ln, tier in ((4, "quick"), (5, "thorough"), (6, "thorough")):
    H(prop="C07", name=f"c07_template_scan_len{ln}", crate="core-h", module="c07_template", kani_args=LIGHT, tier=tier, timeout=1800 if ln == 4 else 5400, mem_gb=24,
      decides="fragments/variables/indents of the parsed template == reference scanner, for every template of this length",
      functions=TPL_FUNCS, shape="STR", bounds=f"all templates of exactly {ln} bytes over {{$,A,T,_,1,' ',\\n}}, transform keys {{T}}; unwind 10")



# ---------------------------------------------------------------- C02 cut-and-match
CUTS = [("self_k1", "no hole", 1, "quick"), ("self_k2", "no hole", 2, "quick"), ("hole0_k2", "hole at child 0", 2, "quick"), ("ell1_k2", "$$$E from child 1", 2, "quick"),
        ("hole1_k2", "hole at child 1", 2, "thorough"), ("hole01_k2", "holes at children 0,1", 2, "thorough"), ("ell0_k2", "$$$E from child 0", 2, "thorough"),
        ("self_k3", "no hole", 3, "thorough"), ("hole1_k3", "hole at child 1", 3, "thorough"), ("hole02_k3", "holes at children 0,2", 3, "thorough"),
        ("ell1_k3", "$$$E from child 1", 3, "thorough"), ("hole0_ell2_k3", "hole at 0, $$$E from child 2", 3, "thorough")]
for suf, desc, k, tier in CUTS:
    H(prop="C02", name=f"c02_{suf}", crate="core-h", module="c02_cut", recursion=REC_FLAT, loops=LOOPS_FLAT, features=["hooks", "n4"], kani_args=LIGHT, timeout=1500 if tier == "quick" else 5400, tier=tier, mem_gb=20,
      decides=f"pattern cut from a FLAT({k}) sibling list ({desc}) matches that list at every strictness and binds each hole to exactly the replaced child / siblings",
      functions=ALIGN_FUNCS + ["ast_grep_core::meta_var::MetaVarEnv::insert_multi"], assumes=ALIGN_ASSUMES + [ST_MAP, "premise of the property assumed: the pattern tree has the code's shape (built from the candidate's own labels)"],
      shape=f"FLAT({k})", bounds=f"{k} candidate leaves with symbolic kind/text (no ERROR/missing), holes only at named children, all 5 strictness; unwind 10, recursion depth 2")

# ---------------------------------------------------------------- C01 / C06 search drivers
SEARCH_ASSUMES = [ST_TS, "matcher stub SymM: symbolic verdict per node; potential_kinds assumed to contain the kind of every node it accepts (the trait's contract)"]
for n, tier in ((4, "quick"), (5, "thorough")):
    H(prop="C01", name=f"c01_find_all_exact_n{n}", crate="core-h", module="c01_search", tier=tier, features=["hooks", "n4"] if n == 4 else ["hooks"],
      decides="FindAllNodes (kind prefilter + Pre) yields exactly the matching nodes of the subtree, ascending document order, none dropped/invented/duplicated",
      functions=["ast_grep_core::matcher::FindAllNodes::next", "ast_grep_core::traversal::Pre::next"], assumes=SEARCH_ASSUMES,
      shape=f"ANY({n})", bounds=f"every tree <= {n} nodes, every start node, symbolic verdict vector, symbolic kind set (or None) over kinds 1..8; unwind 10", timeout=5400 if n == 5 else 1800, mem_gb=20)
    H(prop="C01", name=f"c01_outermost_pre_n{n}", crate="core-h", module="c01_search", tier=tier, features=["hooks", "n4"] if n == 4 else ["hooks"],
      decides="Visitor::reentrant(false) yields exactly the matched nodes without a matched proper ancestor, in document order",
      functions=["ast_grep_core::traversal::Visit::next", "ast_grep_core::traversal::Pre::calibrate_for_match", "ast_grep_core::traversal::Pre::trace_up"], assumes=SEARCH_ASSUMES,
      shape=f"ANY({n})", bounds=f"every tree <= {n} nodes, every start node, symbolic verdict vector; unwind 10", timeout=5400 if n == 5 else 1800, mem_gb=20)
H(prop="C06", name="c06_replace_all_disjoint_n4", crate="core-h", module="c01_search", features=["hooks", "n4"],
  decides="Node::replace_all: edits ordered, pairwise disjoint, inside the file; each edit = [matched.start, matched.start + match_len)",
  functions=["ast_grep_core::node::Node::replace_all", "ast_grep_core::matcher::node_match::NodeMatch::make_edit", "ast_grep_core::replacer::Replacer::get_replaced_range"],
  assumes=SEARCH_ASSUMES + ["get_match_len stub returns a length <= the node's length"],
  shape="ANY(4)", bounds="every tree <= 4 nodes, symbolic verdicts and match lengths; unwind 10", timeout=1800, mem_gb=20)

# ---------------------------------------------------------------- re-added small harnesses
H(prop="C11", name="c11_replace_invalid_regex_rejected", crate="config-h", module="c12_fix_forms", stubbing=True, timeout=1200,
  decides="Transformation::parse rejects a `replace` transformation whose regex does not compile (so no scan-time unwrap panic is reachable for accepted configs)",
  functions=["ast_grep_config::transform::transformation::Transformation::parse", "ast_grep_config::transform::transformation::Replace::compute"],
  assumes=[ST_REGEX, ST_SERDE], shape="1 config", bounds="replace{source:$A, replace:<any string Regex::new rejects>}; unwind 10")
H(prop="C12", name="c12_fix_forms_agree", crate="config-h", module="c12_fix_forms", stubbing=True, timeout=1800, mem_gb=20, kani_args=LIGHT,
  decides="fix `$T` in string form and in object form ({template: $T}) both expand a transformed variable T to its value",
  functions=["ast_grep_config::fixer::Fixer::parse", "ast_grep_config::fixer::Fixer::do_parse", "ast_grep_core::replacer::template::TemplateFix::with_transform",
             "ast_grep_core::replacer::template::replace_fixer", "ast_grep_core::replacer::template::maybe_get_var"],
  assumes=[ST_TS, ST_MAP, ST_REGEX, ST_SERDE], kf_keys=["object_fix_ignores_transform"], shape="1 node", bounds="template `$T`, transform keys {T}, T = `v`; form symbolic; unwind 10")

H(prop="C12", name="c12_fix_forms_template_kind", crate="config-h", module="c12_fix_forms", stubbing=True, timeout=1800, mem_gb=20, kani_args=LIGHT, fq="c12_fix_forms::proofs::c12_fix_forms_template_kind",
  decides="string form and object form of `fix` both classify `$T` (T a transform key) as the transformed variable",
  functions=["ast_grep_config::fixer::Fixer::parse", "ast_grep_config::fixer::Fixer::do_parse", "ast_grep_config::fixer::Fixer::with_transform", "ast_grep_core::replacer::template::TemplateFix::with_transform"],
  assumes=[ST_MAP, ST_REGEX, ST_SERDE], kf_keys=["object_fix_ignores_transform"], shape="1 config", bounds="template `$T`, transform keys {T}; form symbolic; unwind 10")

for nm, dec in (("c04_insert_coherent", "MetaVarEnv::insert: a second binding is accepted iff other name, same node, or structurally identical (same text) code; a rejected binding leaves the env unchanged"),
                ("c04_insert_multi_coherent", "MetaVarEnv::insert_multi: a second `$$$A` binding is accepted iff the named nodes pair up identically; rejected => env unchanged")):
    H(prop="C04", name=nm, crate="core-h", module="c04_insert", features=["hooks", "n4"], timeout=1800, mem_gb=20,
      recursion={"ast_grep_core::match_tree::does_node_match_exactly::<": 1},
      decides=dec, functions=["ast_grep_core::meta_var::MetaVarEnv::insert", "ast_grep_core::meta_var::MetaVarEnv::insert_multi", "ast_grep_core::meta_var::MetaVarEnv::match_multi_var", "ast_grep_core::match_tree::does_node_match_exactly"],
      assumes=[ST_TS, ST_MAP], shape="root + 2 leaves", bounds="two leaves with equal / different 1-byte texts, symbolic choice of nodes and names; arena 4, unwind 6")

SHAPE_DESC = {2: "0(1(2))", 3: "0(1,2)", 4: "0(1(2(3)))", 5: "0(1(2,3))", 6: "0(1(2),3)", 7: "0(1,2(3))", 8: "0(1,2,3)"}
for sh in range(2, 9):
    tier = "quick" if sh in (3, 5, 6) else "thorough"
    bounds = f"tree shape {SHAPE_DESC[sh]} (concrete; one harness per shape), every start node x symbolic verdict vector, kinds 1..8, advertised kind set (or None), match lengths; unwind 10"
    H(prop="C01", name=f"c01_find_all_shape{sh}", crate="core-h", module="c01_search", timeout=1800, mem_gb=20, tier=tier,
      decides="FindAllNodes (kind prefilter + Pre) yields exactly the matching nodes of the subtree, ascending document order, none dropped/invented/duplicated",
      functions=["ast_grep_core::matcher::FindAllNodes::next", "ast_grep_core::traversal::Pre::next", "ast_grep_core::traversal::Pre::trace_up"], assumes=SEARCH_ASSUMES, shape=SHAPE_DESC[sh], bounds=bounds)
    H(prop="C01", name=f"c01_outermost_shape{sh}", crate="core-h", module="c01_search", timeout=1800, mem_gb=20, tier=tier,
      decides="Visitor::reentrant(false) yields exactly the matched nodes without a matched proper ancestor, in document order",
      functions=["ast_grep_core::traversal::Visit::next", "ast_grep_core::traversal::Pre::calibrate_for_match", "ast_grep_core::traversal::Pre::trace_up"], assumes=SEARCH_ASSUMES, shape=SHAPE_DESC[sh], bounds=bounds)
    H(prop="C06", name=f"c06_replace_all_shape{sh}", crate="core-h", module="c01_search", timeout=1800, mem_gb=20, tier=tier,
      decides="Node::replace_all: one edit per outermost match, = [match.start, start + match_len), ordered, pairwise disjoint, inside the file",
      functions=["ast_grep_core::node::Node::replace_all", "ast_grep_core::matcher::node_match::NodeMatch::make_edit", "ast_grep_core::replacer::Replacer::get_replaced_range"],
      assumes=SEARCH_ASSUMES + ["get_match_len stub returns a length <= the node's length"], shape=SHAPE_DESC[sh], bounds=bounds)

H(prop="C19", name="c19_field_access_n4", crate="core-h", module="c19_nav", assumes=[ST_TS], timeout=1800, mem_gb=20,
  decides="field_children(name) yields exactly the children carrying that field, in order; field(name) and child_by_field_id(id) return the first of them; unknown field names yield nothing",
  functions=["ast_grep_core::node::Node::field_children", "ast_grep_core::node::Node::field", "ast_grep_core::node::Node::child_by_field_id"],
  shape="ANY(4)", bounds="every tree <= 4 nodes, symbolic field label in {none, fielda, fieldb} per node, every start node; unwind 10")

for sh, desc in (("a", "root -> 1 -> 2, root -> 3"), ("b", "root -> 1 -> {2, 3}"), ("c", "chain root -> 1 -> 2 -> 3"), ("d", "root -> {1, 2 -> 3}")):
    H(prop="C19", name=f"c19_levelq_shape_{sh}", crate="core-h", module="c19_nav", features=["hooks", "n4"], timeout=1800, mem_gb=20,
      assumes=[ST_TS, "std::collections::VecDeque replaced by the FIFO shim VecQueue (hook): only queue semantics are relied on"],
      decides="Level from the root and from node 1 visits exactly the subtree, once each, by non-decreasing depth and in document order within a depth",
      functions=["ast_grep_core::traversal::Level::next", "ast_grep_core::traversal::Level::new"],
      shape=f"4 nodes: {desc}", bounds=f"tree shape {desc} (concrete), kinds and named bits of every node symbolic, start node in {{root, 1}}; unwind 6")
H(prop="C19", name="c19_levelq_order_n4", crate="core-h", module="c19_nav", features=["hooks", "n4"], timeout=1800, mem_gb=45,
  assumes=[ST_TS, "std::collections::VecDeque replaced by the FIFO shim VecQueue (hook): only queue semantics are relied on"],
  decides="Level from any start node visits exactly its subtree, once each, by non-decreasing depth and in document order within a depth",
  functions=["ast_grep_core::traversal::Level::next", "ast_grep_core::traversal::Level::new"],
  shape="ANY(4)", bounds="every tree <= 4 nodes (symbolic shape, kinds, named bits), every start node; unwind 6 (arena of 4 nodes: no loop runs more than 5 times; unwinding assertions on)")
for sh in range(2, 9):
    H(prop="C19", name=f"c19_level_shape{sh}", crate="core-h", module="c19_nav", assumes=[ST_TS], timeout=1800, mem_gb=20, tier="thorough", features=["hooks", "n4"],

      decides="Level from any start node visits exactly its subtree, once each, level by level",
      functions=["ast_grep_core::traversal::Level::next", "ast_grep_core::traversal::Level::new"],
      shape=SHAPE_DESC[sh], bounds=f"tree shape {SHAPE_DESC[sh]} (concrete; one harness per shape), every start node x symbolic named bits; VecDeque replaced by the FIFO shim VecQueue (hook); unwind 10")


# ---------------------------------------------------------------- tier policy (measured)
# quick    = measured to finish within the quick cap (900 s) on this machine;
# thorough = quick + deeper bounds measured to finish within their own timeout;
# lab      = harnesses kept as the record of what was tried but which the engine does not
#            decide on this machine (time-outs / out of memory, DESIGN 3).  They are run only
#            with `--tier lab`; no registered command runs them, no claim rests on them.
H(prop="C03", name="c03_hole_named_only", crate="core-h", module="c03_single", features=["hooks", "n4"], timeout=1200, mem_gb=20,
  decides="a one-hole pattern with a non-capturing hole ($_ / $$_) matches a node iff the hole is not marked named or the node is named, and binds nothing",
  functions=["ast_grep_core::matcher::pattern::Pattern::match_node_with_env", "ast_grep_core::match_tree::match_node_non_recursive",
             "ast_grep_core::match_tree::match_leaf_meta_var"],
  assumes=[ST_TS, ST_MAP], shape="FLAT(1)", bounds="hole named / any symbolic; candidate leaf: 5 kinds + ERROR, named bit, 1-byte text; 5 strictness levels; unwind 8")
H(prop="C03", name="c03_hole_capture_binds", crate="core-h", module="c03_single", features=["hooks", "n4"], timeout=1200, mem_gb=20, tier="lab",
  decides="a one-hole pattern with a capturing hole ($A / $$A) matches iff not named-only or the node is named, and binds exactly the candidate (Kani reports spurious pointer failures on the MetaVarEnv write; counterexample does not reproduce)",
  functions=["ast_grep_core::matcher::pattern::Pattern::match_node_with_env", "ast_grep_core::match_tree::match_leaf_meta_var", "ast_grep_core::meta_var::MetaVarEnv::insert"],
  assumes=[ST_TS, ST_MAP], shape="FLAT(1)", bounds="hole named / any symbolic; candidate leaf: 5 kinds + ERROR; 5 strictness levels; unwind 8")
H(prop="C03", name="c03_match_len_terminal", crate="core-h", module="c03_single", features=["hooks", "n4"], timeout=1200, mem_gb=20,
  decides="one-token patterns: a node that matches (match_node_with_env) has a matched length (get_match_len), and every reported length is the candidate token's own length (never exceeds the node, never splits it)",
  functions=["ast_grep_core::matcher::pattern::Pattern::get_match_len", "ast_grep_core::match_tree::match_end_non_recursive",
             "ast_grep_core::matcher::pattern::Pattern::match_node_with_env"],
  assumes=[ST_TS], shape="FLAT(1)", bounds="goal token: 5 kinds + ERROR, named bit, 2-byte text; candidate leaf: 5 kinds, 2-byte text; 5 strictness levels; unwind 8")
for _nm, _pat, _tier in (("c01_prefilter_nested_one_token", "call[ call[T1] ] with a 2-byte text", "quick"),
                         ("c01_prefilter_nested_two_tokens", "call[ call[T1] T3 ] with texts of lengths 2, 1", "lab"),
                         ("c01_prefilter_nested_tokens", "call[ call[T1 T2] T3 ] with texts of lengths 4, 2, 3", "thorough")):
    H(prop="C01", name=_nm, crate="core-h", module="c01_prefilter", features=["hooks", "n4"], timeout=3600, mem_gb=16, tier=_tier,
      recursion={"ast_grep_core::matcher::PatternNode::fixed_string_impl": 3},
      decides="Pattern::fixed_string() of a nested pattern is empty or the text of a token whose text the strictness level compares (any token under cst/smart, named tokens only under ast/relaxed -- unnamed pattern tokens can be skipped at any depth --, nothing under signature); requiring less than the longest such token is accepted",
      functions=["ast_grep_core::matcher::pattern::Pattern::fixed_string", "ast_grep_core::matcher::pattern::PatternNode::fixed_string_impl"],
      shape="TREE", bounds=f"pattern {_pat}, symbolic named bits, all 5 strictness levels; unwind 8, recursion of fixed_string_impl 3 (= the nesting depth; CBMC recursion unwinding assertion on)")
for _k in (1, 2):
    H(prop="C01", name=f"c01_prefilter_internal_k{_k}", crate="core-h", module="c01_prefilter", features=["hooks", "n4"], tier="lab",
      recursion=REC_FLAT, loops=LOOPS_FLAT, timeout=1800, mem_gb=24,
      decides="Pattern::match_node_with_env(X) is Some ==> X.text() contains Pattern::fixed_string(), pattern = internal node with one terminal child",
      functions=["ast_grep_core::matcher::pattern::Pattern::fixed_string", "ast_grep_core::matcher::pattern::Pattern::match_node_with_env"] + ALIGN_FUNCS,
      assumes=ALIGN_ASSUMES, shape=f"FLAT({_k})",
      bounds=f"pattern = call[one terminal: 5 kinds, named bit, 1-byte text], all 5 strictness levels; candidate = call node with {_k} leaves (5 kinds, 1-byte texts); unwind 8, matcher recursion 1")
_LAB_PREFIXES = ("c03_env_", "c03_len_", "c03_tt_", "c03_sep_", "c03_lay_", "c03_layc_", "c07_indent_shift", "c05k_logic", "c01k_rule_kinds", "c02_", "c04_", "c04k_", "c05d_", "c05_", 
                 "c14_", "c12_", "c13_", "c01_combined", "c01_kinds_algebra", "c01_find_all_shape", "c01_outermost_shape", "c01_find_all_exact_n", "c01_outermost_pre_n", "c06_replace_all_disjoint_n4",
                 "c06_rewrite", "c06_replace_all_shape", "c07_template_scan", "c11_replace_regex_total", "c11_string_case_split", "c19_level_", "c19_levelq_")
for _h in HARNESSES:
    if _h["name"].startswith(_LAB_PREFIXES):
        _h["tier"] = "lab"
        _h.setdefault("timeout", 5400)
