"""Harness registry: which solver queries decide which property (DESIGN.md §4).

Each entry: prop, name (Kani harness fn), crate, module (file stem under src/ holding the
harness, needed for replay), tier, features, bounds/shape/decides/functions (reported in
evidence), assumes (stub/assumption ids of DESIGN §3.2), optional unwindset / timeout /
kf_keys (known-finding classes the harness can assume away) / witness_for.
"""

ST_TS = "ST1: tree-sitter replaced by the mock arena (structural contract only, no grammar facts)"
ST_UTF8 = "ST2: sources are valid UTF-8; node ranges on char boundaries"
ST_MAP = "ST3/H1: HashMap replaced by VecMap (finite-map semantics; iteration order symbolic where stated)"
ST_REGEX = "ST4: regex crate not executed"
ST_SERDE = "ST6: YAML/serde front half not executed; values built programmatically"

HARNESSES = []


def H(**kw):
    kw.setdefault("tier", "quick")
    kw.setdefault("features", ["hooks"])
    kw.setdefault("assumes", [])
    HARNESSES.append(kw)


# ---------------------------------------------------------------- C20
H(prop="C20", name="c20_metavar_spelling_n5", crate="core-h", module="c20_metavar",
  decides="extract_meta_var(s,'$') == specification table, for every s",
  functions=["ast_grep_core::meta_var::extract_meta_var"],
  shape="STR", bounds="all strings <= 5 bytes over {$,A,Z,a,0,_}; unwind 7")
H(prop="C20", name="c20_metavar_spelling_n7", crate="core-h", module="c20_metavar", tier="thorough",
  decides="extract_meta_var(s,'$') == specification table, for every s",
  functions=["ast_grep_core::meta_var::extract_meta_var"],
  shape="STR", bounds="all strings <= 7 bytes over {$,A,Z,a,0,_}; unwind 9")

ANB_FUNCS = ["ast_grep_config::rule::nth_child::parse_an_b", "ast_grep_config::rule::nth_child::FunctionalPosition::is_matched"]
H(prop="C20", name="c20_anb_parse_spec_n6", crate="config-h", module="anb",
  decides="parse_an_b(s) == reference reading of An+B (accept/reject and (A,B)), for every s",
  functions=ANB_FUNCS[:1], shape="STR", bounds="all strings <= 6 bytes over {+,-,n,N,2,9,' '}; unwind 8")
H(prop="C20", name="c20_anb_parse_spec_n9", crate="config-h", module="anb", tier="thorough",
  decides="parse_an_b(s) == reference reading of An+B (accept/reject and (A,B)), for every s",
  functions=ANB_FUNCS[:1], shape="STR", bounds="all strings <= 9 bytes over {+,-,n,N,2,9,' '}; unwind 11")
H(prop="C20", name="c20_anb_selects_small", crate="config-h", module="anb",
  decides="is_matched(A,B,i) <=> exists n>=0: i+1 = A*n+B",
  functions=ANB_FUNCS[1:], shape="INT", bounds="A in [-4,4], B in [-6,6], index < 12, n <= 18")

H(prop="C11", name="c11_anb_parse_total_n12", crate="config-h", module="anb",
  decides="parse_an_b never panics (overflow, index) on any string",
  functions=ANB_FUNCS[:1], shape="STR", bounds="all strings <= 12 bytes over {+,-,n,9,1,' '} (12 digits overflow i32); unwind 14")
H(prop="C11", name="c11_nth_is_matched_total", crate="config-h", module="anb",
  decides="is_matched never panics (sub/div/rem overflow) for any (step, offset) in i32^2",
  functions=ANB_FUNCS[1:], shape="INT", bounds="step, offset: full i32; index < 2^31-2")
