"""Harness registry: which solver queries decide which property (DESIGN.md §4).

Each entry: prop, name (Kani harness fn), crate, module (file stem under src/ holding the
harness, needed for replay), tier, features, bounds/shape/decides/functions (reported in
evidence), assumes (stub/assumption ids of DESIGN §3.2), optional unwindset / timeout /
kf_keys (known-finding classes the harness can assume away) / witness_for.
"""

ST_TS = "ST1: tree-sitter replaced by the mock arena (structural contract only, no grammar facts)"
ST_UTF8 = "ST2: sources are valid UTF-8; node ranges on char boundaries"
ST_MAP = "ST3/H1: HashMap replaced by VecMap (finite-map semantics; iteration order symbolic where stated)"
ST_REGEX = "ST4: regex crate not executed"
ST_SERDE = "ST6: YAML/serde front half not executed; values built programmatically"

HARNESSES = []


def H(**kw):
    kw.setdefault("tier", "quick")
    kw.setdefault("features", ["hooks"])
    kw.setdefault("assumes", [])
    HARNESSES.append(kw)


# ---------------------------------------------------------------- C20
H(prop="C20", name="c20_metavar_spelling_n5", crate="core-h", module="c20_metavar",
  decides="extract_meta_var(s,'$') == specification table, for every s",
  functions=["ast_grep_core::meta_var::extract_meta_var"],
  shape="STR", bounds="all strings <= 5 bytes over {$,A,Z,a,0,_}; unwind 7")
H(prop="C20", name="c20_metavar_spelling_n7", crate="core-h", module="c20_metavar", tier="thorough",
  decides="extract_meta_var(s,'$') == specification table, for every s",
  functions=["ast_grep_core::meta_var::extract_meta_var"],
  shape="STR", bounds="all strings <= 7 bytes over {$,A,Z,a,0,_}; unwind 9")

ANB_FUNCS = ["ast_grep_config::rule::nth_child::parse_an_b", "ast_grep_config::rule::nth_child::FunctionalPosition::is_matched"]
H(prop="C20", name="c20_anb_parse_spec_n6", crate="config-h", module="anb",
  decides="parse_an_b(s) == reference reading of An+B (accept/reject and (A,B)), for every s",
  functions=ANB_FUNCS[:1], shape="STR", bounds="all strings <= 6 bytes over {+,-,n,N,2,9,' '}; unwind 8")
H(prop="C20", name="c20_anb_parse_spec_n9", crate="config-h", module="anb", tier="thorough",
  decides="parse_an_b(s) == reference reading of An+B (accept/reject and (A,B)), for every s",
  functions=ANB_FUNCS[:1], shape="STR", bounds="all strings <= 9 bytes over {+,-,n,N,2,9,' '}; unwind 11")
H(prop="C20", name="c20_anb_selects_small", crate="config-h", module="anb",
  decides="is_matched(A,B,i) <=> exists n>=0: i+1 = A*n+B",
  functions=ANB_FUNCS[1:], shape="INT", bounds="A in [-4,4], B in [-6,6], index < 12, n <= 18")

H(prop="C11", name="c11_anb_parse_total_n12", crate="config-h", module="anb",
  decides="parse_an_b never panics (overflow, index) on any string",
  functions=ANB_FUNCS[:1], shape="STR", bounds="all strings <= 12 bytes over {+,-,n,9,1,' '} (12 digits overflow i32); unwind 14")
H(prop="C11", name="c11_nth_is_matched_total", crate="config-h", module="anb",
  decides="is_matched never panics (sub/div/rem overflow) for any (step, offset) in i32^2",
  functions=ANB_FUNCS[1:], shape="INT", bounds="step, offset: full i32; index < 2^31-2")

# ---------------------------------------------------------------- C07
TPL_FUNCS = ["ast_grep_core::replacer::template::create_template", "ast_grep_core::replacer::split_first_meta_var",
             "ast_grep_core::replacer::indent::get_indent_at_offset"]
H(prop="C07", name="c07_split_first_meta_var_n7", crate="core-h", module="c07_template",
  decides="split_first_meta_var(s) == (up to 3 sigils, maximal [A-Z_0-9]+ name, kind single/multi/transformed) or None, for every s starting with the sigil",
  functions=TPL_FUNCS[1:2], shape="STR", bounds="all strings <= 7 bytes over {$,A,T,_,1,b} starting with $; unwind 9")
H(prop="C07", name="c07_template_scan_n3", crate="core-h", module="c07_template",
  decides="fragments/variables/indents of the parsed template == reference scanner, for every template",
  functions=TPL_FUNCS, shape="STR", bounds="all templates <= 3 bytes over {$,A,T,_,1,' ',\\n}, transform keys {T}; unwind 5", timeout=900)
H(prop="C07", name="c07_template_scan_n4", crate="core-h", module="c07_template", tier="thorough",
  decides="fragments/variables/indents of the parsed template == reference scanner, for every template",
  functions=TPL_FUNCS, shape="STR", bounds="all templates <= 4 bytes over {$,A,T,_,1,' ',\\n}, transform keys {T}; unwind 6", timeout=5400, mem_gb=24)

# ---------------------------------------------------------------- C16
H(prop="C16", name="c16_char_column_4ch", crate="core-h", module="c16_positions",
  decides="get_char_column(offset) == number of chars since the last newline (forward decode)",
  functions=["ast_grep_core::source::<String as Content>::get_char_column"], assumes=[ST_UTF8],
  shape="STR", bounds="all texts of <= 4 chars over {a, e-acute(2B), emoji(4B), \\n} (<= 16 bytes), every char-boundary offset; unwind 18")
H(prop="C16", name="c16_display_context_n6", crate="core-h", module="c16_positions",
  decides="display_context(before,after): leading/matched/trailing/start_line == whole-line window computed independently",
  functions=["ast_grep_core::node::Node::display_context"], assumes=[ST_TS],
  shape="STR+1 node", bounds="all texts <= 6 bytes over {a,\\n}, every node range s<=e<=len, before,after <= 2; unwind 8")
H(prop="C16", name="c16_display_context_n9", crate="core-h", module="c16_positions", tier="thorough",
  decides="display_context(before,after): leading/matched/trailing/start_line == whole-line window computed independently",
  functions=["ast_grep_core::node::Node::display_context"], assumes=[ST_TS],
  shape="STR+1 node", bounds="all texts <= 9 bytes over {a,\\n}, every node range, before,after <= 2; unwind 11")

# ---------------------------------------------------------------- C10
H(prop="C10", name="c10_input_edit_exact_n4", crate="core-h", module="c10_edit", mem_gb=24,
  decides="AstGrep::edit: new text == splice; the old tree receives exactly one Tree::edit whose InputEdit (bytes and row/col points) describes the change exactly; re-parse is given the old tree",
  functions=["ast_grep_core::node::Root::do_edit", "ast_grep_core::source::perform_edit",
             "ast_grep_core::source::<String as Content>::accept_edit", "ast_grep_core::source::position_for_offset"],
  assumes=[ST_TS, "tree-sitter contract: incremental parse == fresh parse iff the old tree was edited exactly once with an exact InputEdit"],
  shape="STR", bounds="every size class len<=4, position<=len, deleted<=len-position, inserted<=2 enumerated concretely (105 classes) x symbolic contents over {a,\\n}/{b,\\n}; unwind 7")

# ---------------------------------------------------------------- small config kernels
H(prop="C20", name="c20_resolve_char_python", crate="config-h", module="small_kernels",
  decides="resolve_char(index, default, len) == Python slice index normalisation",
  functions=["ast_grep_config::transform::transformation::resolve_char"],
  shape="INT", bounds="index: full i32 or absent; len: every i32 >= 0; default in {0, len}")
H(prop="C11", name="c11_transform_source_total", crate="config-h", module="small_kernels",
  decides="Transformation::used_vars / parse never panic on any `source` string",
  functions=["ast_grep_config::transform::transformation::Transformation::used_vars",
             "ast_grep_config::transform::transformation::parse_meta_var"],
  shape="STR", bounds="all strings of <= 3 symbols over {$, A, a, e-acute(2B)} incl. empty; unwind 6",
  kf_keys=["transform_source_first_char"])
H(prop="C14", name="c14_suppress_set_parse", crate="config-h", module="small_kernels",
  decides="parse_suppression_set(comment) == ids listed after `ast-grep-ignore:` (trimmed), None iff nothing listed",
  functions=["ast_grep_config::combined::parse_suppression_set"],
  shape="STR", bounds="`// ast-grep-ignore` + every tail <= 7 bytes over {a,b,:,',',' '}, <= 4 ids; unwind 27")

# ---------------------------------------------------------------- C19
NAV = {
 "children_parent": ("children()/parent()/child(i)/is_leaf agree with the arena; child ranges nest and are ordered", ["ast_grep_core::node::Node::children", "ast_grep_core::node::Node::child", "ast_grep_core::node::Node::parent"]),
 "ancestors_chain": ("ancestors() == iterated parent(), nearest first", ["ast_grep_core::node::Node::ancestors"]),
 "siblings_iter": ("next_all()/prev_all() == iterated next()/prev() (non-zero-width nodes)", ["ast_grep_core::node::Node::next_all", "ast_grep_core::node::Node::prev_all"]),
 "pre_order": ("Pre from any start node visits exactly its subtree, once each, in pre-order", ["ast_grep_core::traversal::Pre::next", "ast_grep_core::traversal::Pre::trace_up"]),
 "post_order": ("Post from any start node visits exactly its subtree, once each, in post-order", ["ast_grep_core::traversal::Post::next", "ast_grep_core::traversal::Post::trace_down"]),
 "level_order": ("Level from any start node visits exactly its subtree, once each, level by level", ["ast_grep_core::traversal::Level::next"]),
}
for key, (dec, funcs) in NAV.items():
    if key == "level_order":
        # VecDeque + per-node child Vec: the n=4 instance needs > 14 GB; quick tier uses n=3
        H(prop="C19", name="c19_level_order_n3", crate="core-h", module="c19_nav", decides=dec, functions=funcs, assumes=[ST_TS],
          shape="ANY(3)", bounds="every tree of <= 3 nodes, every start node; unwind 10")
        H(prop="C19", name="c19_level_order_n4", crate="core-h", module="c19_nav", tier="thorough", decides=dec, functions=funcs, assumes=[ST_TS],
          shape="ANY(4)", bounds="every tree of <= 4 nodes, every start node; unwind 10", timeout=3000, mem_gb=30)
        continue
    H(prop="C19", name=f"c19_{key}_n4", crate="core-h", module="c19_nav", decides=dec, functions=funcs, assumes=[ST_TS],
      shape="ANY(4)", bounds="every tree of <= 4 nodes (symbolic pre-order parent vector), symbolic kinds/named bits, leaf widths 0-2 (1-2 for sibling clauses), gaps 0-1, every start node; unwind 10")
    H(prop="C19", name=f"c19_{key}_n5", crate="core-h", module="c19_nav", tier="thorough", decides=dec, functions=funcs, assumes=[ST_TS],
      shape="ANY(5)", bounds="every tree of <= 5 nodes (symbolic pre-order parent vector), symbolic kinds/named bits, leaf widths 0-2 (1-2 for sibling clauses), gaps 0-1, every start node; unwind 10", timeout=3000, mem_gb=20)

# ---------------------------------------------------------------- C03 / C02 alignment (FLAT)
REC_FLAT = {
  "ast_grep_core::match_tree::does_node_match_exactly::<": 1,
  "ast_grep_core::match_tree::match_node::match_node_impl::<": 2,
  "ast_grep_core::match_tree::match_node::match_nodes_impl_recursive::<": 1,
  "ast_grep_core::match_tree::match_node::may_match_ellipsis_impl::<": 1,
}
ALIGN_FUNCS = ["ast_grep_core::match_tree::match_node::match_node_impl", "ast_grep_core::match_tree::match_node::match_nodes_impl_recursive",
               "ast_grep_core::match_tree::match_node::may_match_ellipsis_impl", "ast_grep_core::match_tree::strictness::MatchStrictness::match_terminal",
               "ast_grep_core::meta_var::MetaVarEnv::insert"]
ALIGN_ASSUMES = [ST_TS, "namedness is a function of the kind id; anonymous tokens' text is fixed by their kind"]
H(prop="C03", name="c03_sound_len_t_cap_t_k3", crate="core-h", module="c03_align", recursion=REC_FLAT, timeout=1500,
  decides="pattern [T,$A,T]: get_match_len = Some(len) on a FLAT(k) node => a legal alignment exists (oracle from the property text); len <= node",
  functions=ALIGN_FUNCS[:4], assumes=ALIGN_ASSUMES,
  shape="FLAT(3)", bounds="k <= 3 candidate leaves with symbolic kind in {ident,number,comment,punct_a,punct_b}, 1-byte texts over {x,y}; goal terminals symbolic incl. ERROR kind; all 5 strictness; unwind 10, recursion depth 2")
H(prop="C03", name="c03_sound_env_t_cap_k2", crate="core-h", module="c03_align", recursion=REC_FLAT, timeout=1500,
  decides="pattern [T,$A]: match_node = Some on a FLAT(k) node => a legal alignment exists",
  functions=ALIGN_FUNCS, assumes=ALIGN_ASSUMES + [ST_MAP],
  shape="FLAT(2)", bounds="k <= 2 candidate leaves, symbolic labels, all 5 strictness; unwind 10, recursion depth 2")

# ---------------------------------------------------------------- C01 / C06 search drivers
SEARCH_ASSUMES = [ST_TS, "matcher stub SymM: symbolic verdict per node; potential_kinds assumed to contain the kind of every node it accepts (the trait's contract)"]
for n, tier in ((4, "quick"), (5, "thorough")):
    H(prop="C01", name=f"c01_find_all_exact_n{n}", crate="core-h", module="c01_search", tier=tier,
      decides="FindAllNodes (kind prefilter + Pre) yields exactly the matching nodes of the subtree, ascending document order, none dropped/invented/duplicated",
      functions=["ast_grep_core::matcher::FindAllNodes::next", "ast_grep_core::traversal::Pre::next"], assumes=SEARCH_ASSUMES,
      shape=f"ANY({n})", bounds=f"every tree <= {n} nodes, every start node, symbolic verdict vector, symbolic kind set (or None) over kinds 1..8; unwind 10", timeout=3000 if n == 5 else 900, mem_gb=20)
    H(prop="C01", name=f"c01_outermost_pre_n{n}", crate="core-h", module="c01_search", tier=tier,
      decides="Visitor::reentrant(false) yields exactly the matched nodes without a matched proper ancestor, in document order",
      functions=["ast_grep_core::traversal::Visit::next", "ast_grep_core::traversal::Pre::calibrate_for_match", "ast_grep_core::traversal::Pre::trace_up"], assumes=SEARCH_ASSUMES,
      shape=f"ANY({n})", bounds=f"every tree <= {n} nodes, every start node, symbolic verdict vector; unwind 10", timeout=3000 if n == 5 else 900, mem_gb=20)
H(prop="C06", name="c06_replace_all_disjoint_n4", crate="core-h", module="c01_search",
  decides="Node::replace_all: edits ordered, pairwise disjoint, inside the file; each edit = [matched.start, matched.start + match_len)",
  functions=["ast_grep_core::node::Node::replace_all", "ast_grep_core::matcher::node_match::NodeMatch::make_edit", "ast_grep_core::replacer::Replacer::get_replaced_range"],
  assumes=SEARCH_ASSUMES + ["get_match_len stub returns a length <= the node's length"],
  shape="ANY(4)", bounds="every tree <= 4 nodes, symbolic verdicts and match lengths; unwind 10", timeout=900, mem_gb=20)
