#!/bin/bash
# confirm_seed.sh <agent worktree> <seed id>
# Re-verifies a seeded change produced by a sub-agent, in its own scratch worktree:
#   (1) patch + demo  -> demo FAILS   (2) demo only -> demo PASSES   (3) patch only -> full suite passes
# and stores patch.diff / demo.diff / meta.json (+ confirm.log) under /verif/seeded/<id>/.
set -u
WT=$1; ID=$2
OUT=/verif/seeded/$ID
mkdir -p $OUT
cd $WT || exit 2
export CARGO_TARGET_DIR=$WT/target CARGO_NET_OFFLINE=true
DEMO_CMD=$(python3 -c "import json;print(json.load(open('seed_out/meta.json'))['demo_cmd'])")
LOG=$OUT/confirm.log; : > $LOG
git reset -q --hard HEAD; git clean -fdq -e seed_out -e target
git apply seed_out/patch.diff && git apply seed_out/demo.diff || { echo "APPLY FAILED" | tee -a $LOG; exit 2; }
echo "== (1) patch+demo: $DEMO_CMD" >> $LOG
( eval "$DEMO_CMD" ) >> $LOG 2>&1; r1=$?
git apply -R seed_out/patch.diff
echo "== (2) demo only" >> $LOG
( eval "$DEMO_CMD" ) >> $LOG 2>&1; r2=$?
git apply -R seed_out/demo.diff; git clean -fdq -e seed_out -e target
git apply seed_out/patch.diff
echo "== (3) patch only: full suite" >> $LOG
cargo test --workspace --no-fail-fast --offline >> $LOG 2>&1; r3=$?
PASSED=$(grep "test result" $LOG | awk '/== \(3\)/{f=1} {p+=$4; fl+=$6} END {print p" passed "fl" failed (all three stages summed)"}')
echo "RESULT demo_with_patch_rc=$r1 demo_without_patch_rc=$r2 suite_with_patch_rc=$r3" | tee -a $LOG
cp seed_out/patch.diff seed_out/demo.diff seed_out/meta.json $OUT/
if [ $r1 -ne 0 ] && [ $r2 -eq 0 ] && [ $r3 -eq 0 ]; then echo CONFIRMED | tee -a $LOG; exit 0; else echo NOT-CONFIRMED | tee -a $LOG; exit 1; fi
