#!/usr/bin/env python3
"""Regenerate /verif/MANIFEST.json from tools/registry.py + tools/manifest_meta.py."""
import json, os, subprocess, sys
VERIF = os.path.dirname(os.path.dirname(os.path.abspath(__file__)))
sys.path.insert(0, os.path.join(VERIF, "tools"))
import registry, manifest_meta as mm

props = [json.loads(l)["id"] for l in open(os.path.join(VERIF, "properties.jsonl"))]
claimed = [p for p in props if p in mm.CLAIMS and p in mm.CLAIMED_NOW and any(h["prop"] == p and h.get("tier", "quick") == "quick" for h in registry.HARNESSES)]
checks = []
for p in claimed:
    c = mm.CLAIMS[p]
    checks.append({
        "property_id": p,
        "quick_cmd": f"./check {p} --tier quick",
        "thorough_cmd": f"./check {p} --tier thorough",
        "evidence_file": f"/verif/evidence/{p}.json",
        "replay_cmd_template": f"./check {p} --replay {{path}}",
        "engine": c.get("engine", "kani-cbmc"),
        "level_claimed": {"category": "model_checking", "text": c["text"], "design_ref": c.get("design_ref", "DESIGN.md §4 " + p)},
        "level_note": c["note"],
        "technique": c.get("technique", mm.TECH),
    })
na = []
for p in props:
    if p not in claimed:
        na.append({"property_id": p, "reason": mm.NOT_APPLICABLE.get(p, mm.UNCLAIMED_REASONS.get(p, "not claimed"))})
hooks_commits = subprocess.run(["git", "-C", "/repo", "log", "--format=%H", "--grep=^verif hooks"], capture_output=True, text=True).stdout.split()
m = {
    "version": 1,
    "setup_cmd": "bash tools/setup.sh",
    "hooks": {
        "guard": "cargo feature `verif-hooks` (crates/core, crates/config); off by default",
        "enable": "harness crates under /verif/kani depend on /repo/crates/{core,config} by path with features=[\"verif-hooks\"]",
        "baseline_off_cmd": "cd /repo && cargo test --workspace --no-fail-fast --offline",
        "source_commits": hooks_commits,
        "add_only": True,
    },
    "engines": mm.ENGINES,
    "checks": checks,
    "not_applicable": na,
    "notes": mm.NOTES,
}
json.dump(m, open(os.path.join(VERIF, "MANIFEST.json"), "w"), indent=1)
print("claimed:", claimed)
