#!/bin/bash
# run_seed.sh <seed id> <check args...>
# Applies /verif/seeded/<id>/patch.diff to a scratch worktree of /repo's HEAD under /tmp and
# runs ./check against it (VERIF_REPO), without touching /repo or the evidence files.
# The worktree and its build output are removed afterwards.
set -u
ID=$1; shift
WT=/tmp/mut-$ID
git -C /repo worktree remove --force $WT >/dev/null 2>&1
git -C /repo worktree add -q --detach $WT HEAD || exit 3
git -C $WT apply /verif/seeded/$ID/patch.diff || { echo "patch does not apply"; git -C /repo worktree remove --force $WT; exit 3; }
cd /verif
VERIF_REPO=$WT REPO_TAG=mut-$ID ./check "$@" --no-evidence
rc=$?
git -C /repo worktree remove --force $WT
TAG=$(python3 -c "import hashlib,sys;print(hashlib.sha1(sys.argv[1].encode()).hexdigest()[:8])" $WT)
rm -rf /verif/.work/kani-$TAG /verif/.work/k-*-$TAG /verif/.work/k-replay-*-$TAG 2>/dev/null
echo "SEED $ID rc=$rc"
exit $rc
